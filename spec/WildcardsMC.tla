----------------------------- MODULE WildcardsMC -----------------------------
(* Bounded-exhaustive check of Wildcards over every listing (sequence, with  *)
(* repetition) of pool entries up to MaxLen, and emission of the listings as *)
(* vectors for the real code. One initial state per listing; no transitions. *)
EXTENDS Wildcards, TLC, Json

CONSTANTS MaxLen, Emit

APool == JsonDeserialize("addrs.json")
RPool == JsonDeserialize("routes.json")
NA == Len(APool)
NR == Len(RPool)

VARIABLES kind, idx
mvars == <<kind, idx>>

Seqs(n, maxlen) == UNION {[1..k -> 1..n] : k \in 0..maxlen}

MInit == \/ kind = "addr"  /\ idx \in Seqs(NA, MaxLen)
         \/ kind = "route" /\ idx \in Seqs(NR, MaxLen)
MNext == UNCHANGED mvars
MSpec == MInit /\ [][MNext]_mvars

AL == [i \in 1..Len(idx) |-> APool[idx[i]]]
RL == [i \in 1..Len(idx) |-> RPool[idx[i]]]

AscendingNets(res) == \A i \in 1..(Len(res) - 1) : LessH(res[i].h, res[i+1].h)

\* C13: the loop computes the requirement; ascending, duplicate free
C13_ImplIsReq == kind = "addr" => /\ ImplPrefixes(AL) = ReqPrefixes(AL)
                                   /\ AscendingNets(ReqPrefixes(AL))
\* C14: folding betterRDNSS over any listing yields the minimum of the documented ranking
C14_ImplIsReq == kind = "addr" => ImplBestDNS(AL) = ReqBestDNS(AL)
\* C14: the documented ranking is a strict total order on the pool (irreflexive, total, transitive)
C14_Order == (kind = "addr" /\ Len(idx) = 3) =>
               LET a == AL[1] b == AL[2] c == AL[3] IN
               /\ ~RankLess(a, a)
               /\ (a.h # b.h => RankLess(a, b) \/ RankLess(b, a) \/ (Stable(a) = Stable(b) /\ Class(a.h) = Class(b.h) /\ a.h = b.h))
               /\ (RankLess(a, b) /\ RankLess(b, c) => RankLess(a, c))
\* C15
C15_ImplIsReq == kind = "route" => /\ ImplRoutes(RL) = ReqRoutes(RL)
                                    /\ NoOverlap(ReqRoutes(RL)) /\ AscendingNets(ReqRoutes(RL))

EmitVec == Emit => PrintT(ToJson([kind |-> kind, idx |-> idx]))
=============================================================================
