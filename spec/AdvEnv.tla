------------------------------ MODULE AdvEnv ------------------------------
(* The ENVIRONMENT half of the advertiser model on its own: every history   *)
(* of driver inputs (message arrivals, stop requests, link events,          *)
(* forwarding flips, held/released/failing transmits) of at most MaxEv      *)
(* events on a time grid of MaxT ticks. The environment actions of          *)
(* Advertiser.tla do not depend on the implementation's state (beyond being *)
(* taken at quiescent points, which is where the harness takes them), so    *)
(* the input histories of the composed model are exactly these. TLC         *)
(* enumerates them (BFS); each complete history is printed once as JSON and *)
(* replayed into the real code by harness/corerad/vf_adv.go.                *)
EXTENDS Integers, Sequences, FiniteSets, TLC, Json

CONSTANTS Srcs,        \* RS sources ("unspec" or addresses)
          Kinds,       \* other input kinds: "badhl", "ns", "na", "timeout", "readerr_other", "readerr_sys", "rasame", "radiff", "link"
          HoldDsts,    \* destinations whose transmit the driver may hold open
          FailDsts,    \* destinations whose transmit the driver may make fail
          Terms,       \* subset of BOOLEAN: stop kinds offered (TRUE = terminate, FALSE = reload)
          MaxFlips, MaxEv, MaxT, MinGap

VARIABLES t, h, n, nflip, held, failing, stopped
evars == <<t, h, n, nflip, held, failing, stopped>>

EInit == t = 0 /\ h = <<>> /\ n = 0 /\ nflip = 0 /\ held = {} /\ failing = {} /\ stopped = FALSE

Add(e) == h' = Append(h, e) /\ n' = n + 1

Arrive == /\ ~stopped /\ n < MaxEv
          /\ \/ \E s \in Srcs : Add([op |-> "rs", src |-> s, at |-> t])
             \/ \E k \in Kinds : Add([op |-> k, at |-> t])
          /\ UNCHANGED <<t, nflip, held, failing, stopped>>

Flip == /\ ~stopped /\ n < MaxEv /\ nflip < MaxFlips
        /\ Add([op |-> "flip", at |-> t]) /\ nflip' = nflip + 1
        /\ UNCHANGED <<t, held, failing, stopped>>

Hold == /\ ~stopped /\ n < MaxEv
        /\ \E d \in HoldDsts \ held : Add([op |-> "hold", dst |-> d, at |-> t]) /\ held' = held \cup {d}
        /\ UNCHANGED <<t, nflip, failing, stopped>>

Release == /\ n < MaxEv
           /\ \E d \in held : Add([op |-> "release", dst |-> d, at |-> t]) /\ held' = held \ {d}
           /\ UNCHANGED <<t, nflip, failing, stopped>>

FailW == /\ ~stopped /\ n < MaxEv
         /\ \E d \in FailDsts \ failing : Add([op |-> "failw", dst |-> d, at |-> t]) /\ failing' = failing \cup {d}
         /\ UNCHANGED <<t, nflip, held, stopped>>

Stop == /\ ~stopped /\ n < MaxEv
        /\ \E b \in Terms : Add([op |-> "cancel", term |-> b, at |-> t])
        /\ stopped' = TRUE
        /\ UNCHANGED <<t, nflip, held, failing>>

\* time passes in steps of at least MinGap ticks only between events (keeps histories canonical)
Tick == /\ ~stopped /\ t < MaxT /\ n < MaxEv
        /\ t' = t + 1
        /\ UNCHANGED <<h, n, nflip, held, failing, stopped>>

ENext == Arrive \/ Flip \/ Hold \/ Release \/ FailW \/ Stop \/ Tick
ESpec == EInit /\ [][ENext]_evars

\* a history is complete when nothing more can be appended
Complete == stopped \/ n = MaxEv \/ t = MaxT
Emit == (Complete /\ n > 0) => PrintT(ToJson([h |-> h, t |-> t]))
=============================================================================
