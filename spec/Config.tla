-------------------------------- MODULE Config --------------------------------
(***************************************************************************)
(* C02: the documented configuration constraints (Accept) and defaults      *)
(* (Elab) of internal/config (Parse, parseInterface(s), parseMinInterval,   *)
(* parseDefaultLifetime, parsePlugins, parsePrefix/Route/RDNSS/DNSSL,       *)
(* pref64), over an abstract TOML document.                                 *)
(*                                                                          *)
(* Document (produced together with its TOML text by lib/cfgdoc.py; string  *)
(* syntax is resolved there: every value is already classified):            *)
(*  doc    = [ifaces, debug = [addr in {"empty","ok","bad"}, prometheus,    *)
(*            pprof], unknown in {"none","top","iface","stanza"}]           *)
(*  iface  = [name, names, monitor, advertise, verbose, managed, other,     *)
(*            unicast, max, min, life, reach, retrans : DurKey,             *)
(*            hop = [set, v], mtu, preference, lla in {"absent","true",     *)
(*            "false"}, captive, prefixes, routes, rdnss, dnssl, pref64]    *)
(*  DurKey = [st in {"absent","empty","auto","infinite","val","bad"}, d]    *)
(*  Net    = [st in {"empty","ok","bad","v4","4in6","noncanon"}, s, h, bits]*)
(***************************************************************************)
EXTENDS Integers, Sequences, FiniteSets, SequencesExt, Durations, Addr

Range1(s) == {s[i] : i \in 1..Len(s)}

H24 == Secs(86400)
H4  == Secs(14400)
H1  == Secs(3600)

---------------------------------------------------------------------------
(* duration keys *)
\* value of a key parsed by parseDuration with default def; "bad" when rejected there
\* (nil/auto -> def, "" -> 0, infinite -> Infinity, otherwise 0 <= d <= Infinity)
PDur(k, def) == CASE k.st \in {"absent", "auto"} -> [ok |-> TRUE, d |-> def]
                  [] k.st = "empty"    -> [ok |-> TRUE, d |-> DZero]
                  [] k.st = "infinite" -> [ok |-> TRUE, d |-> DInf]
                  [] k.st = "val"      -> [ok |-> ~IsNeg(k.d) /\ DLeq(k.d, DInf), d |-> k.d]
                  [] OTHER             -> [ok |-> FALSE, d |-> DZero]
\* value of a plain string duration key (max_interval, reachable_time, retransmit_timer): "" or absent -> def
SDur(k, def) == CASE k.st \in {"absent", "empty"} -> [ok |-> TRUE, d |-> def]
                  [] k.st = "val" -> [ok |-> TRUE, d |-> k.d]
                  [] OTHER -> [ok |-> FALSE, d |-> DZero]

MaxOf(t) == SDur(t.max, Secs(600))
MaxOK(t) == MaxOf(t).ok /\ Within(MaxOf(t).d, Secs(4), Secs(1800))
MaxMs(t) == Ms(MaxOf(t).d)                     \* only used when MaxOK

TruncS(x) == (x \div 1000) * 1000
UpperMin(mx) == TruncS((3 * mx) \div 4)         \* 0.75 * max truncated to a whole second
DefaultMin(mx) == IF mx >= 9000 THEN TruncS((33 * mx) \div 100) ELSE mx
MinOK(t) == \/ t.min.st \in {"absent", "empty", "auto"}
            \/ t.min.st = "val" /\ Within(t.min.d, Secs(3), OfMs(UpperMin(MaxMs(t))))
MinOf(t) == IF t.min.st = "val" THEN t.min.d ELSE OfMs(DefaultMin(MaxMs(t)))

LifeOf(t) == PDur(t.life, OfMs(3 * MaxMs(t)))
LifeOK(t) == LifeOf(t).ok /\ (IsZero(LifeOf(t).d) \/ Within(LifeOf(t).d, MaxOf(t).d, Secs(9000)))

TimerOK(k) == SDur(k, DZero).ok /\ Within(SDur(k, DZero).d, DZero, H1)

PrefOK(p) == p \in {"", "medium", "low", "high"}
PrefOf(p) == IF p = "" THEN "medium" ELSE p

---------------------------------------------------------------------------
(* prefixes and routes *)
NetOK(n) == n.st \in {"empty", "ok"}            \* canonical IPv6 CIDR or omitted
Overlaps(a, b) == IF a.bits <= b.bits THEN PfxContains(a.h, a.bits, b.h) ELSE PfxContains(b.h, b.bits, a.h)

WildPfx == [st |-> "ok", s |-> "::/64", h |-> <<0, 0, 0, 0, 0, 0, 0, 0>>, bits |-> 64]
WildRt  == [st |-> "ok", s |-> "::/0", h |-> <<0, 0, 0, 0, 0, 0, 0, 0>>, bits |-> 0]
PfxNet(p) == IF p.net.st = "empty" THEN WildPfx ELSE p.net
RtNet(r)  == IF r.net.st = "empty" THEN WildRt ELSE r.net

PrefixOK(p) ==
  LET n == PfxNet(p) v == PDur(p.valid, H24) pr == PDur(p.pref, H4) IN
  /\ NetOK(p.net)
  /\ n.bits # 128
  /\ (IsUnspec(n.h) => n.bits = 64)
  /\ v.ok /\ ~IsZero(v.d)
  /\ pr.ok /\ ~IsZero(pr.d)
  /\ DLeq(pr.d, v.d)
  /\ (p.deprecated => IsFin(v.d) /\ IsFin(pr.d))
RouteOK(r) ==
  LET n == RtNet(r) l == PDur(r.life, H24) IN
  /\ NetOK(r.net)
  /\ (IsUnspec(n.h) => n.bits = 0)
  /\ PrefOK(r.preference)
  /\ l.ok /\ ~IsZero(l.d)
  /\ (r.deprecated => IsFin(l.d))
NoPrefixOverlap(ps) == \A i, j \in 1..Len(ps) : i # j => ~Overlaps(PfxNet(ps[i]), PfxNet(ps[j]))
NoRouteOverlap(rs) == \A i, j \in 1..Len(rs) :
                         (i # j /\ RtNet(rs[i]) # WildRt /\ RtNet(rs[j]) # WildRt) => ~Overlaps(RtNet(rs[i]), RtNet(rs[j]))

RdnssOK(r, mx) ==
  /\ PDur(r.life, OfMs(3 * mx)).ok
  /\ \A i \in 1..Len(r.servers) : r.servers[i].st \in {"ok", "unspec"}
  /\ Cardinality({i \in 1..Len(r.servers) : r.servers[i].st = "unspec"}) <= 1
  /\ \A i, j \in 1..Len(r.servers) : (i # j /\ r.servers[i].st = "ok" /\ r.servers[j].st = "ok") => r.servers[i].h # r.servers[j].h
DnsslOK(d, mx) ==
  /\ PDur(d.life, OfMs(3 * mx)).ok
  /\ Len(d.names) >= 1
  /\ \A i \in 1..Len(d.names) : d.names[i] # ""
  /\ \A i, j \in 1..Len(d.names) : i # j => d.names[i] # d.names[j]
Pref64OK(p) == p.net.st = "empty" \/ (p.net.st = "ok" /\ p.net.bits \in {96, 64, 56, 48, 40, 32})

---------------------------------------------------------------------------
(* one interface table *)
HasName(t)  == t.name # ""
HasNames(t) == Len(t.names) > 0
NamesOf(t)  == IF HasName(t) THEN <<t.name>> ELSE t.names

AdvertisingOK(t) ==
  /\ MaxOK(t)
  /\ MinOK(t)
  /\ TimerOK(t.reach) /\ TimerOK(t.retrans)
  /\ (t.hop.set => t.hop.v \in 0..255)
  /\ LifeOK(t)
  /\ PrefOK(t.preference)
  /\ \A i \in 1..Len(t.prefixes) : PrefixOK(t.prefixes[i])
  /\ NoPrefixOverlap(t.prefixes)
  /\ \A i \in 1..Len(t.routes) : RouteOK(t.routes[i])
  /\ NoRouteOverlap(t.routes)
  /\ \A i \in 1..Len(t.rdnss) : RdnssOK(t.rdnss[i], MaxMs(t))
  /\ \A i \in 1..Len(t.dnssl) : DnsslOK(t.dnssl[i], MaxMs(t))
  /\ t.mtu \in 0..65536
  /\ \A i \in 1..Len(t.pref64) : Pref64OK(t.pref64[i])

TableOK(t) ==
  /\ HasName(t) # HasNames(t)                     \* exactly one of name / names
  /\ ~(t.monitor /\ t.advertise)
  /\ (t.monitor \/ AdvertisingOK(t))              \* a monitor table carries no advertising settings: nothing else is validated

RECURSIVE Flat1(_)
Flat1(ss) == IF ss = <<>> THEN <<>> ELSE Head(ss) \o Flat1(Tail(ss))
AllNames(doc) == Flat1([i \in 1..Len(doc.ifaces) |-> NamesOf(doc.ifaces[i])])
Distinct(s) == \A i, j \in 1..Len(s) : i # j => s[i] # s[j]

\* C02: accepted iff ...
Accept(doc) ==
  /\ doc.unknown = "none"
  /\ Len(doc.ifaces) >= 1
  /\ doc.debug.addr # "bad"
  /\ \A i \in 1..Len(doc.ifaces) : TableOK(doc.ifaces[i])
  /\ Distinct(AllNames(doc))

---------------------------------------------------------------------------
(* elaboration: what an accepted document means *)
OptBool(o) == o # "false"                          \* absent / true -> TRUE

ElabPrefix(p) == LET n == PfxNet(p) IN
  [k |-> "prefix", wild |-> n = WildPfx, pfx |-> n.s, h |-> n.h, bits |-> n.bits, onlink |-> OptBool(p.onlink), auto |-> OptBool(p.auto),
   valid |-> PDur(p.valid, H24).d, pref |-> PDur(p.pref, H4).d, deprecated |-> p.deprecated]
ElabRoute(r) == LET n == RtNet(r) IN
  [k |-> "route", wild |-> n = WildRt, pfx |-> n.s, h |-> n.h, bits |-> n.bits, preference |-> PrefOf(r.preference), life |-> PDur(r.life, H24).d,
   deprecated |-> r.deprecated]
ServerLess(a, b) == LessH(a.h, b.h)
ElabRdnss(r, mx) ==
  LET static == {r.servers[i] : i \in {j \in 1..Len(r.servers) : r.servers[j].st = "ok"}}
      sorted == SetToSortSeq(static, ServerLess) IN
  [k |-> "rdnss", wild |-> (Len(r.servers) = 0 \/ \E i \in 1..Len(r.servers) : r.servers[i].st = "unspec"),
   life |-> PDur(r.life, OfMs(3 * mx)).d, servers |-> [i \in 1..Len(sorted) |-> sorted[i].s], sh |-> [i \in 1..Len(sorted) |-> sorted[i].h]]
ElabDnssl(d, mx) == [k |-> "dnssl", life |-> PDur(d.life, OfMs(3 * mx)).d, names |-> d.names]
Ceil8(ms) == ((ms + 7999) \div 8000) * 8000
Pref64Life(mx) == IF 3 * mx < 65528000 THEN OfMs(Ceil8(3 * mx)) ELSE Secs(65528)
ElabPref64(p, mx) == [k |-> "pref64", pfx |-> IF p.net.st = "empty" THEN "64:ff9b::/96" ELSE p.net.s, life |-> Pref64Life(mx)]

Plugins(t) ==
  LET mx == MaxMs(t) IN
     [i \in 1..Len(t.prefixes) |-> ElabPrefix(t.prefixes[i])]
  \o [i \in 1..Len(t.routes) |-> ElabRoute(t.routes[i])]
  \o [i \in 1..Len(t.rdnss) |-> ElabRdnss(t.rdnss[i], mx)]
  \o [i \in 1..Len(t.dnssl) |-> ElabDnssl(t.dnssl[i], mx)]
  \o (IF t.mtu # 0 THEN <<[k |-> "mtu", mtu |-> t.mtu]>> ELSE <<>>)
  \o (IF t.lla # "false" THEN <<[k |-> "lla"]>> ELSE <<>>)
  \o (IF t.captive # "" THEN <<[k |-> "cp", uri |-> t.captive]>> ELSE <<>>)
  \o [i \in 1..Len(t.pref64) |-> ElabPref64(t.pref64[i], mx)]

ElabIface(t, name) ==
  IF t.monitor
  THEN [name |-> name, monitor |-> TRUE, advertise |-> FALSE, verbose |-> t.verbose, managed |-> FALSE, other |-> FALSE,
        unicast |-> FALSE, min |-> DZero, max |-> DZero, reach |-> DZero, retrans |-> DZero, life |-> DZero, hop |-> 0,
        preference |-> "medium", plugins |-> <<>>]
  ELSE [name |-> name, monitor |-> FALSE, advertise |-> t.advertise, verbose |-> t.verbose, managed |-> t.managed,
        other |-> t.other, unicast |-> t.unicast, min |-> MinOf(t), max |-> MaxOf(t).d,
        reach |-> SDur(t.reach, DZero).d, retrans |-> SDur(t.retrans, DZero).d, life |-> LifeOf(t).d,
        hop |-> IF t.hop.set THEN t.hop.v ELSE 64, preference |-> PrefOf(t.preference), plugins |-> Plugins(t)]

Elab(doc) ==
  [ifaces |-> Flat1([i \in 1..Len(doc.ifaces) |->
                       LET t == doc.ifaces[i] ns == NamesOf(t) IN [j \in 1..Len(ns) |-> ElabIface(t, ns[j])]]),
   debug |-> IF doc.debug.addr = "ok"
             THEN [addr |-> TRUE, prometheus |-> doc.debug.prometheus, pprof |-> doc.debug.pprof]
             ELSE [addr |-> FALSE, prometheus |-> FALSE, pprof |-> FALSE]]
=============================================================================
