------------------------------ MODULE Wildcards ------------------------------
(***************************************************************************)
(* Wildcard expansion of the plugins (internal/plugin/plugin.go):          *)
(*   C13  prefix  ::/64  -> the interface's eligible /64 networks          *)
(*   C14  RDNSS   ::     -> the best eligible interface address            *)
(*   C15  route   ::/0   -> the maximal loopback routes                    *)
(* For each: Req* is the requirement, stated set-theoretically over the    *)
(* OS listing (a sequence: order and multiplicity are the OS's business),  *)
(* Impl* is a transcription of the loop the code runs. TLC checks          *)
(* Impl* = Req* (and the order / permutation lemmas) over every listing of *)
(* the pool up to a length bound; the trace spec checks the real code's    *)
(* output against Req* for those and for arbitrary recorded listings.      *)
(* An address record: [v4, h (8 groups), bits, dep, mt, sp, tmp, tent,     *)
(* forever]; a route record: [v4, h, bits].                                *)
(***************************************************************************)
EXTENDS Integers, Sequences, FiniteSets, SequencesExt, Addr

\* Range (Functions module) is the set of elements of a sequence
NetRec(h, bits) == [h |-> h, bits |-> bits]
LessNet(a, b) == LessH(a.h, b.h)

---------------------------------------------------------------------------
(* C13 *)
EligiblePfx(a) == ~a.v4 /\ ~IsLinkLocal(a.h) /\ a.bits = 64 /\ ~a.tmp /\ ~a.tent
ReqPrefixes(listing) ==
  SetToSortSeq({NetRec(Masked(a.h, 64), 64) : a \in {x \in Range(listing) : EligiblePfx(x)}}, LessNet)

\* Prefix.current(): filter, mask, dedupe with a seen-set in listing order, stable sort by address
RECURSIVE ImplPfxLoop(_, _, _)
ImplPfxLoop(listing, seen, acc) ==
  IF listing = <<>> THEN acc
  ELSE LET a == Head(listing) IN
       IF a.v4 \/ IsLinkLocal(a.h) \/ a.bits # 64 \/ a.tmp \/ a.tent
       THEN ImplPfxLoop(Tail(listing), seen, acc)
       ELSE LET p == NetRec(Masked(a.h, 64), 64) IN
            IF p \in seen THEN ImplPfxLoop(Tail(listing), seen, acc)
            ELSE ImplPfxLoop(Tail(listing), seen \cup {p}, Append(acc, p))
\* stable insertion sort by address (ties keep their order)
RECURSIVE InsertSorted(_, _)
InsertSorted(s, x) == IF s = <<>> THEN <<x>>
                      ELSE IF LessH(x.h, Head(s).h) THEN <<x>> \o s
                      ELSE <<Head(s)>> \o InsertSorted(Tail(s), x)
RECURSIVE StableSort(_)
StableSort(s) == IF s = <<>> THEN <<>> ELSE InsertSorted(StableSort(SubSeq(s, 1, Len(s) - 1)), s[Len(s)])
ImplPrefixes(listing) == StableSort(ImplPfxLoop(listing, {}, <<>>))

---------------------------------------------------------------------------
(* C14 *)
EligibleDNS(a) == ~a.v4 /\ ~a.dep /\ ~a.tmp /\ ~a.tent
Stable(a) == a.forever \/ a.mt \/ a.sp \/ IsEUI64(a.h)
\* documented ranking: stable first, then ULA, global unicast, link-local, anything else
Class(h) == IF IsULA(h) THEN 0
            ELSE IF IsLinkLocal(h) THEN 2
            ELSE IF IsUnspec(h) \/ IsLoopback6(h) \/ IsMulticast6(h) THEN 3
            ELSE 1
RankLess(a, b) == LET sa == IF Stable(a) THEN 0 ELSE 1
                      sb == IF Stable(b) THEN 0 ELSE 1 IN
                  \/ sa < sb
                  \/ sa = sb /\ Class(a.h) < Class(b.h)
                  \/ sa = sb /\ Class(a.h) = Class(b.h) /\ LessH(a.h, b.h)
\* <<>> when no address is eligible (RA generation must fail), else <<h>>
ReqBestDNS(listing) ==
  LET E == {x \in Range(listing) : EligibleDNS(x)} IN
  IF E = {} THEN <<>>
  ELSE <<(CHOOSE a \in E : \A b \in E : a.h = b.h \/ RankLess(a, b) \/ (~RankLess(b, a))).h>>

\* betterRDNSS(best, current) as coded: flags, then IsPrivate / IsGlobalUnicast / IsLinkLocalUnicast, then bytes
GoIsGlobalUnicast(h) == ~IsUnspec(h) /\ ~IsLoopback6(h) /\ ~IsMulticast6(h) /\ ~IsLinkLocal(h)
Better(best, cur) ==      \* TRUE iff `cur` replaces `best`
  LET okC == Stable(cur) okB == Stable(best) IN
  IF okC /\ ~okB THEN TRUE ELSE IF ~okC /\ okB THEN FALSE
  ELSE IF IsULA(cur.h) /\ ~IsULA(best.h) THEN TRUE ELSE IF ~IsULA(cur.h) /\ IsULA(best.h) THEN FALSE
  ELSE IF IsULA(cur.h) /\ IsULA(best.h) THEN LessH(cur.h, best.h)
  ELSE IF GoIsGlobalUnicast(cur.h) /\ ~GoIsGlobalUnicast(best.h) THEN TRUE
  ELSE IF ~GoIsGlobalUnicast(cur.h) /\ GoIsGlobalUnicast(best.h) THEN FALSE
  ELSE IF GoIsGlobalUnicast(cur.h) /\ GoIsGlobalUnicast(best.h) THEN LessH(cur.h, best.h)
  ELSE IF IsLinkLocal(cur.h) /\ ~IsLinkLocal(best.h) THEN TRUE
  ELSE IF ~IsLinkLocal(cur.h) /\ IsLinkLocal(best.h) THEN FALSE
  ELSE LessH(cur.h, best.h)
RECURSIVE ImplDNSLoop(_, _)
ImplDNSLoop(listing, best) ==      \* best = <<>> or <<address record>>
  IF listing = <<>> THEN best
  ELSE LET a == Head(listing) IN
       IF a.v4 \/ a.dep \/ a.tmp \/ a.tent THEN ImplDNSLoop(Tail(listing), best)
       ELSE IF best = <<>> THEN ImplDNSLoop(Tail(listing), <<a>>)
       ELSE ImplDNSLoop(Tail(listing), IF Better(best[1], a) THEN <<a>> ELSE best)
ImplBestDNS(listing) == LET b == ImplDNSLoop(listing, <<>>) IN IF b = <<>> THEN <<>> ELSE <<b[1].h>>

\* the option: failure when nothing is eligible, else the wildcard choice followed by the static servers
ReqServers(listing, static) == LET b == ReqBestDNS(listing) IN
                               IF b = <<>> THEN [err |-> TRUE, servers |-> <<>>]
                               ELSE [err |-> FALSE, servers |-> b \o static]

---------------------------------------------------------------------------
(* C15 *)
\* r is advertised iff IPv6, not a host route, and no different, shorter loopback route contains it
Covered(r, listing) == \E s \in Range(listing) : ~s.v4 /\ s.bits < r.bits /\ PfxContains(s.h, s.bits, r.h)
ReqRoutes(listing) ==
  SetToSortSeq({NetRec(r.h, r.bits) : r \in {x \in Range(listing) : ~x.v4 /\ x.bits < 128 /\ ~Covered(x, listing)}},
               LessNet)

\* Route.current() as coded after the fix: skip IPv4 and /128, skip routes covered by a shorter route, add each prefix once
RECURSIVE ImplRouteLoop(_, _, _, _)
ImplRouteLoop(rest, all, seen, acc) ==
  IF rest = <<>> THEN acc
  ELSE LET r == Head(rest) p == NetRec(r.h, r.bits) IN
       IF r.v4 \/ r.bits = 128 \/ p \in seen \/ Covered(r, all) THEN ImplRouteLoop(Tail(rest), all, seen, acc)
       ELSE ImplRouteLoop(Tail(rest), all, seen \cup {p}, Append(acc, p))
ImplRoutes(listing) == StableSort(ImplRouteLoop(listing, listing, {}, <<>>))

NoOverlap(res) == \A i, j \in 1..Len(res) : i # j => /\ res[i] # res[j]
                                                     /\ ~PfxContains(res[i].h, res[i].bits, res[j].h)
=============================================================================
