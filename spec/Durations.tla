------------------------------ MODULE Durations ------------------------------
(* Duration algebra for values that do not fit TLC's 32-bit integers.         *)
(* A duration is a record [k, s, ms, ns]:                                     *)
(*   k = "fin":  s seconds + ms milliseconds + ns nanoseconds (floor          *)
(*               semantics: 0 <= ms < 1000, 0 <= ns < 10^6; s may be < 0)     *)
(*   k = "inf":  exactly 2^32-1 s (ndp.Infinity)                              *)
(*   k = "over": more than that                                              *)
(* (harness/common/vf_ra.go renders time.Duration values this way.)          *)
EXTENDS Integers

Fin(s, ms) == [k |-> "fin", s |-> s, ms |-> ms, ns |-> 0]
DInf  == [k |-> "inf", s |-> 0, ms |-> 0, ns |-> 0]
DZero == Fin(0, 0)
OfMs(x) == Fin(x \div 1000, x % 1000)                 \* x >= 0, fits an int
Secs(n) == Fin(n, 0)

IsFin(d)  == d.k = "fin"
IsZero(d) == d.k = "fin" /\ d.s = 0 /\ d.ms = 0 /\ d.ns = 0
IsNeg(d)  == d.k = "fin" /\ d.s < 0
\* total order
Rank(d) == IF d.k = "fin" THEN 0 ELSE IF d.k = "inf" THEN 1 ELSE 2
DLess(a, b) == \/ Rank(a) < Rank(b)
               \/ /\ Rank(a) = 0 /\ Rank(b) = 0
                  /\ \/ a.s < b.s
                     \/ a.s = b.s /\ a.ms < b.ms
                     \/ a.s = b.s /\ a.ms = b.ms /\ a.ns < b.ns
DLeq(a, b) == a = b \/ DLess(a, b)
\* within [lo, hi]
Within(d, lo, hi) == DLeq(lo, d) /\ DLeq(d, hi)

\* milliseconds of a small finite duration (|s| < 2 000 000)
Ms(d) == d.s * 1000 + d.ms
\* truncation to the wire unit
TruncToSec(d) == IF IsFin(d) THEN Fin(d.s, 0) ELSE d
TruncToMs(d)  == IF IsFin(d) THEN [d EXCEPT !.ns = 0] ELSE d
=============================================================================
