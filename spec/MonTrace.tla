------------------------------ MODULE MonTrace ------------------------------
EXTENDS MonReq, TLC, Json
Trace == ndJsonDeserialize("trace.ndjson")
VARIABLES l, m, sid
tv == <<l, m, sid>>
Step(mm, e) == CASE e.ev = "in" -> OnMIn(mm, e) [] e.ev = "upd" -> OnMUpd(mm, e) [] e.ev = "quiet" -> OnMQuiet(mm, e)
                 [] e.ev \in {"panic", "leak", "hang", "reterr"} -> OnMFail(mm, e) [] OTHER -> mm
TInit == l = 1 /\ m = MonInit("", 0) /\ sid = ""
TNext == /\ l <= Len(Trace)
         /\ LET e == Trace[l] IN
            IF e.ev = "reset" THEN m' = MonInit(e.ifi, e.frac) /\ sid' = e.id
            ELSE LET m2 == Step(m, e) IN
                 /\ m' = m2 /\ sid' = sid
                 /\ \A c \in m2.bad \ m.bad : PrintT(ToJson([viol |-> c, id |-> sid, line |-> l, t |-> e.t]))
         /\ l' = l + 1
TSpec == TInit /\ [][TNext]_tv
Consumed == TLCGet("stats").diameter - 1 = Len(Trace)
=============================================================================
