------------------------------ MODULE ConfigMC ------------------------------
(***************************************************************************)
(* Specification-level theorem behind C03 and C01, checked by TLC over a    *)
(* boundary domain of abstract documents (one initial state per document):  *)
(*   Accept(doc) => every interface's RA, built from Elab(doc) in every     *)
(*   system state of the domain, is Encodable, survives the wire up to      *)
(*   truncation (OnWire is idempotent and keeps it Encodable), is generated *)
(*   deterministically, and carries lifetime 0 exactly when forwarding is   *)
(*   off.                                                                   *)
(* This is the gate between the validator's ranges (Config) and the field   *)
(* widths (RA): a constraint missing from Accept shows up here as a         *)
(* non-encodable RA without running any code.                               *)
(***************************************************************************)
EXTENDS Config, RA, TLC

Z8 == <<0, 0, 0, 0, 0, 0, 0, 0>>
KAbs == [st |-> "absent", d |-> DZero]
KEmp == [st |-> "empty", d |-> DZero]
KInf == [st |-> "infinite", d |-> DZero]
KVal(d) == [st |-> "val", d |-> d]
NetE == [st |-> "empty", s |-> "", h |-> Z8, bits |-> 0]
NetOk(s, h, b) == [st |-> "ok", s |-> s, h |-> h, bits |-> b]
P1 == NetOk("2001:db8::/64", <<8193, 3512, 0, 0, 0, 0, 0, 0>>, 64)
R1 == NetOk("2001:db8:f::/48", <<8193, 3512, 15, 0, 0, 0, 0, 0>>, 48)

Lifes == {KAbs, KEmp, KInf, KVal(Fin(0, 1)), KVal(Secs(3600)), KVal(Fin(-1, 0)), KVal([k |-> "over", s |-> 0, ms |-> 0, ns |-> 0]),
          KVal(DInf), KVal(Secs(2000000000))}
Maxes == {KAbs, KVal(Secs(4)), KVal(Fin(5, 900)), KVal(Secs(1800)), KVal(Fin(3, 999)), KVal(Fin(1800, 1))}
DefLifes == {KAbs, KEmp, KInf, KVal(DZero), KVal(Secs(9000)), KVal(Fin(9000, 1)), KVal(Fin(0, 1)), KVal(Secs(1800))}
Timers == {KAbs, KVal(Fin(1, 500)), KVal(Secs(3600)), KVal(Fin(3600, 1)), KVal(Fin(-1, 0))}
Pref64s == {<<>>, <<[net |-> NetE]>>, <<[net |-> NetOk("2001:db8:64::/56", <<8193, 3512, 100, 0, 0, 0, 0, 0>>, 56)]>>,
            <<[net |-> NetOk("64:ff9b::/100", <<100, 65435, 0, 0, 0, 0, 0, 0>>, 100)]>>,
            <<[net |-> [st |-> "v4", s |-> "", h |-> Z8, bits |-> 0]]>>}

VARIABLES doc
Table(mx, lf, tm, pv, pp, dep, rl, dl, p64) ==
  [name |-> "eth0", names |-> <<>>, monitor |-> FALSE, advertise |-> TRUE, verbose |-> FALSE, managed |-> FALSE, other |-> FALSE,
   unicast |-> FALSE, max |-> mx, min |-> KAbs, life |-> lf, reach |-> tm, retrans |-> KAbs, hop |-> [set |-> FALSE, v |-> 0], mtu |-> 1500,
   preference |-> "", lla |-> "absent", captive |-> "",
   prefixes |-> <<[net |-> P1, valid |-> pv, pref |-> pp, deprecated |-> dep, onlink |-> "absent", auto |-> "absent"]>>,
   routes |-> <<[net |-> R1, preference |-> "", life |-> rl, deprecated |-> dep]>>,
   rdnss |-> <<[life |-> dl, servers |-> <<>>]>>, dnssl |-> <<[life |-> dl, names |-> <<"a.example">>]>>, pref64 |-> p64]
\* three slices of the product (the keys interact only within a slice)
MInit ==
  \/ \E mx \in Maxes, lf \in DefLifes, tm \in Timers, p64 \in Pref64s :
       doc = [ifaces |-> <<Table(mx, lf, tm, KAbs, KAbs, FALSE, KAbs, KAbs, p64)>>, debug |-> [addr |-> "empty", prometheus |-> FALSE, pprof |-> FALSE], unknown |-> "none"]
  \/ \E pv \in Lifes, pp \in Lifes, dep \in BOOLEAN, mx \in {KAbs, KVal(Fin(5, 900))} :
       doc = [ifaces |-> <<Table(mx, KAbs, KAbs, pv, pp, dep, KAbs, KAbs, <<>>)>>, debug |-> [addr |-> "empty", prometheus |-> FALSE, pprof |-> FALSE], unknown |-> "none"]
  \/ \E rl \in Lifes, dl \in Lifes, dep \in BOOLEAN, mx \in {KAbs, KVal(Secs(1800))} :
       doc = [ifaces |-> <<Table(mx, KAbs, KAbs, KAbs, KAbs, dep, rl, dl, <<>>)>>, debug |-> [addr |-> "empty", prometheus |-> FALSE, pprof |-> FALSE], unknown |-> "none"]
MSpec == MInit /\ [][UNCHANGED doc]_doc

A1 == [addr |-> "2001:db8:5::1", bits |-> 64, v4 |-> FALSE, h |-> <<8193, 3512, 5, 0, 0, 0, 0, 1>>, dep |-> FALSE, mt |-> FALSE, sp |-> FALSE,
       tmp |-> FALSE, tent |-> FALSE, forever |-> TRUE]
Systems == {[fwd |-> f, mac |-> TRUE, addrs |-> <<A1>>, routes |-> <<>>, clock |-> c, addrfail |-> FALSE, routefail |-> FALSE] :
              f \in BOOLEAN, c \in {-5, 0, 3599, 3600, 86400, 90000}}

Theorem ==
  Accept(doc) =>
    \A sys \in Systems :
      LET e == Elab(doc).ifaces[1] ra == BuildRA(e, sys, 1) IN
      /\ ~ra.err
      /\ Encodable(ra)
      /\ Encodable(OnWire(ra)) /\ OnWire(OnWire(ra)) = OnWire(ra)
      /\ (IsZero(ra.life) <=> (~sys.fwd \/ IsZero(e.life)))
      /\ Misconfigured(e, sys) = (~sys.fwd /\ ~IsZero(e.life))
\* The PREF64 lifetime rule of C01 as arithmetic facts, over EVERY accepted MaxRtrAdvInterval in whole milliseconds
\* (4 s .. 1800 s): a multiple of 8 s, never below three intervals, less than 8 s above them, capped at 65528 s.
CONSTANT P64Stride      \* 1: every millisecond value; larger strides in the quick tier
ASSUME Pref64Lemma ==
  \A k \in 0..((1800000 - 4000) \div P64Stride) :
    LET mx == 4000 + k * P64Stride
        l == Pref64Life(mx) IN
    /\ l.k = "fin" /\ l.ms = 0 /\ l.ns = 0 /\ l.s % 8 = 0 /\ l.s <= 65528
    /\ l.s * 1000 >= 3 * mx
    /\ l.s * 1000 < 3 * mx + 8000
\* the domain is not vacuous: some documents are accepted, some rejected
AcceptedSeen == Accept(doc) => TRUE
=============================================================================
