---------------------------- MODULE DeprecationMC ----------------------------
(* Every (valid, preferred <= valid, route lifetime) and every non-decreasing *)
(* sequence of up to MaxReads clock readings around the deadlines: the        *)
(* requirement's lemmas hold, and each case is emitted as a vector.           *)
EXTENDS Deprecation, TLC, Json, FiniteSets

CONSTANTS Epoch, Valids, RLs, Lo, Hi, MaxReads

VARIABLES v
MInit == \E valid \in Valids, rl \in RLs, dep \in BOOLEAN :
           \E pref \in 1..valid :
             \E n \in 1..MaxReads :
               \E rd \in [1..n -> Lo..Hi] :
                 /\ \A i \in 1..(n-1) : rd[i] <= rd[i+1]
                 /\ v = [epoch |-> Epoch, valid |-> valid, pref |-> pref, rl |-> rl, deprecated |-> dep, reads |-> rd]
MSpec == MInit /\ [][UNCHANGED v]_v

Lemmas == LET s == ReqLifetimes(v) IN
          /\ NonNegative(s) /\ PrefLeqValid(s)
          /\ (v.deprecated => NonIncreasing(s) /\ ZeroFromDeadline(v, s))
          /\ (~v.deprecated => \A i \in 1..Len(s) : s[i] = <<v.valid, v.pref, v.rl>>)
EmitVec == PrintT(ToJson(v))
=============================================================================
