-------------------------------- MODULE Waits --------------------------------
(* C05: the waits the unsolicited-multicast loop may choose (RFC 4861 6.2.4). *)
EXTENDS Integers

CONSTANTS InitCap,      \* MAX_INITIAL_RTR_ADVERT_INTERVAL (16 s)
          InitCount,    \* MAX_INITIAL_RTR_ADVERTISEMENTS (3)
          Sec           \* one second in the unit in use

\* time.Duration.Round(time.Second) for non-negative values: half away from zero
RoundSec(x) == ((x + Sec \div 2) \div Sec) * Sec

\* d is an acceptable wait before request number i+1 (i = 0, 1, ...): positive and, to one-second granularity (the
\* statement's own words: d is compared after rounding to a whole second, so an implementation that drew sub-second
\* waits would not be rejected for that alone), within [Min, Max]; the first InitCount waits are additionally capped at
\* InitCap (the cap applies to the chosen value, so a minimum above InitCap does not forbid InitCap itself)
AllowedWait(i, mn, mx, d) ==
  LET lo == RoundSec(mn) hi == RoundSec(mx) dd == RoundSec(d) IN
  /\ d > 0
  /\ IF i < InitCount
     THEN (lo <= dd /\ dd <= hi /\ dd <= InitCap) \/ (dd = InitCap /\ hi > InitCap)
     ELSE lo <= dd /\ dd <= hi
=============================================================================
