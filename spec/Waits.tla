-------------------------------- MODULE Waits --------------------------------
(* C05: the waits the unsolicited-multicast loop may choose (RFC 4861 6.2.4). *)
EXTENDS Integers

CONSTANTS InitCap,      \* MAX_INITIAL_RTR_ADVERT_INTERVAL (16 s)
          InitCount,    \* MAX_INITIAL_RTR_ADVERTISEMENTS (3)
          Sec           \* one second in the unit in use

\* time.Duration.Round(time.Second) for non-negative values: half away from zero
RoundSec(x) == ((x + Sec \div 2) \div Sec) * Sec

\* d is an acceptable wait before request number i+1 (i = 0, 1, ...): a whole,
\* positive number of seconds within [Min, Max] to one-second granularity; the
\* first InitCount waits are additionally capped at InitCap (the cap applies to
\* the chosen value, so a minimum above InitCap does not forbid InitCap itself)
AllowedWait(i, mn, mx, d) ==
  LET lo == RoundSec(mn) hi == RoundSec(mx) IN
  /\ d > 0 /\ d % Sec = 0
  /\ IF i < InitCount
     THEN (lo <= d /\ d <= hi /\ d <= InitCap) \/ (d = InitCap /\ hi > InitCap)
     ELSE lo <= d /\ d <= hi
=============================================================================
