-------------------------------- MODULE Addr --------------------------------
(* Abstract IPv6/IPv4 address algebra. An address or prefix base is the      *)
(* sequence h of its eight 16-bit groups (IPv4: the last two groups), so the *)
(* numeric order of addresses is the lexicographic order of h.               *)
EXTENDS Integers, Sequences, FiniteSets

Pow2(n) == CASE n = 0 -> 1 [] n = 1 -> 2 [] n = 2 -> 4 [] n = 3 -> 8 [] n = 4 -> 16 [] n = 5 -> 32 [] n = 6 -> 64
             [] n = 7 -> 128 [] n = 8 -> 256 [] n = 9 -> 512 [] n = 10 -> 1024 [] n = 11 -> 2048 [] n = 12 -> 4096
             [] n = 13 -> 8192 [] n = 14 -> 16384 [] n = 15 -> 32768 [] n = 16 -> 65536

\* strict lexicographic order on group sequences of equal length
LessH(a, b) == \E i \in 1..Len(a) : a[i] < b[i] /\ \A j \in 1..(i-1) : a[j] = b[j]
LeqH(a, b)  == a = b \/ LessH(a, b)

\* the top n bits (0 <= n <= 16) of a group
TopBits(g, n) == g \div Pow2(16 - n)
\* group i (1-based) of address h restricted to a prefix of `bits` bits
MaskedGroup(h, bits, i) ==
  LET full == bits \div 16
      rem  == bits % 16 IN
  IF i <= full THEN h[i]
  ELSE IF i = full + 1 /\ rem > 0 THEN TopBits(h[i], rem) * Pow2(16 - rem)
  ELSE 0
Masked(h, bits) == [i \in 1..8 |-> MaskedGroup(h, bits, i)]

\* does the prefix (ph, pbits) contain address h (same family assumed)?
PfxContains(ph, pbits, h) == Masked(h, pbits) = Masked(ph, pbits)

IsLinkLocal(h)  == TopBits(h[1], 10) = 1018            \* fe80::/10
IsULA(h)        == TopBits(h[1], 7) = 126              \* fc00::/7
IsMulticast6(h) == TopBits(h[1], 8) = 255              \* ff00::/8
IsUnspec(h)     == \A i \in 1..8 : h[i] = 0
IsLoopback6(h)  == (\A i \in 1..7 : h[i] = 0) /\ h[8] = 1
IsEUI64(h)      == h[6] % 256 = 255 /\ h[7] \div 256 = 254    \* bytes 11,12 = ff:fe
=============================================================================
