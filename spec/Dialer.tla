------------------------------ MODULE Dialer ------------------------------
(* Generated from Dialer.tla.in by spec/unch.py (only UNCHANGED clauses are expanded). *)
(***************************************************************************)
(* Implementation-shaped model of system.Dialer: Dial / init / dial /       *)
(* setAutoconf (internal/system/dialer.go) for one task, sequential (one   *)
(* goroutine), discrete urgent time for the back-off timer.                *)
(*   D_First     first DialFunc call (init with nil error)                 *)
(*   D_Classify  the switch in init(): recoverable / fatal                 *)
(*   D_Backoff   one iteration of the retry loop: ctx.Done | timer, dial   *)
(*   D_Task      fn(ctx, dctx) returns; cleanup closure; restore autoconf  *)
(*   E_Cancel    stop request while the task runs or while waiting         *)
(*   Tick        time passes to the pending back-off deadline              *)
(* dial() is unfolded: lookup/check/listen outcome `pre`, then (advertise  *)
(* mode) State.IPv6Autoconf `get` and SetIPv6Autoconf(false) `set`; the    *)
(* socket is closed again when get/set fail (as coded after the fix: commit*)
(* recorded in known_findings.json).                                       *)
(* Every boundary call feeds the DialReq monitor (`rq`), so INVARIANT Req  *)
(* is Impl => Requirement; `hist` is the script of outcomes that the       *)
(* harness replays into the real Dialer.                                   *)
(***************************************************************************)
EXTENDS Integers, Sequences, FiniteSets, TLC, Json

CONSTANTS MaxAttempts, DelayStep, MaxDelay,   \* 50, 250 ms, 3000 ms (small values in model checking)
          Depth,       \* number of scripted outcomes per behaviour
          Advertise,   \* dialer mode
          InitAuto,    \* autoconf value before Dial
          MaxT

INSTANCE DialReq

PreOut == {"ok", "lnr", "sys", "perm", "other"}           \* lookup/check/listen
GetOut == {"ok", "other"}
SetOut == {"ok", "perm", "other"}
FnOut  == {"nil", "canceled", "link", "sys", "perm", "other"}
RstOut == {"ok", "perm", "notexist", "other"}

VARIABLES pc, err, attempt, timer, now, ctx, k, nextK, sysctl, prev, ret, budget, hist, rq
vars == <<pc, err, attempt, timer, now, ctx, k, nextK, sysctl, prev, ret, budget, hist, rq>>

Init == /\ pc = "first" /\ err = "" /\ attempt = 0 /\ timer = 0 /\ now = 0
        /\ ctx = "live" /\ k = 0 /\ nextK = 1
        /\ sysctl = InitAuto /\ prev = InitAuto /\ ret = "" /\ budget = Depth /\ hist = <<>>
        /\ rq = DReqInit(Advertise, InitAuto)

Spend == budget > 0 /\ budget' = budget - 1
T == [t |-> now]

\* One call of DialFunc = dial(). Result: <<class, monitor', sysctl', prev'>>.
\* The connection id is nextK.
DialResult(pre, get, set, r0) ==
  IF pre # "ok" THEN [cls |-> pre, rq |-> r0, sysctl |-> sysctl, prev |-> prev]
  ELSE LET r1 == OnDSock(r0, [s |-> nextK]) IN
       IF ~Advertise THEN [cls |-> "ok", rq |-> r1, sysctl |-> sysctl, prev |-> prev]
       ELSE LET r2 == OnDGet(r1, [val |-> sysctl, res |-> get]) IN
            IF get # "ok"
            THEN [cls |-> "other", rq |-> OnDClose(r2, [s |-> nextK]), sysctl |-> sysctl, prev |-> prev]
            ELSE LET r3 == OnDSet(r2, [phase |-> "disable", val |-> FALSE, res |-> set]) IN
                 IF set = "other"
                 THEN [cls |-> "other", rq |-> OnDClose(r3, [s |-> nextK]), sysctl |-> sysctl, prev |-> prev]
                 ELSE [cls |-> "ok", rq |-> r3, sysctl |-> IF set = "ok" THEN FALSE ELSE sysctl, prev |-> sysctl]

\* the outcomes that matter for one attempt (get/set only in advertise mode after a successful listen)
Attempts == {[pre |-> p, get |-> g, set |-> s, cancel |-> c] :
               p \in PreOut, g \in GetOut, s \in SetOut, c \in BOOLEAN}
Canon(a) == /\ (a.pre # "ok" \/ ~Advertise) => (a.get = "ok" /\ a.set = "ok")
            /\ a.get # "ok" => a.set = "ok"

D_First ==
  /\ pc = "first" /\ Spend
  /\ \E a \in Attempts :
       /\ Canon(a) /\ (a.cancel => ctx = "live")
       /\ LET d == DialResult(a.pre, a.get, a.set, IF a.cancel THEN OnDCancel(rq, T) ELSE rq) IN
          /\ rq' = OnDDial(d.rq, [res |-> d.cls, k |-> IF d.cls = "ok" THEN nextK ELSE 0, t |-> now])
          /\ sysctl' = d.sysctl /\ prev' = d.prev
          /\ IF d.cls = "ok" THEN pc' = "task" /\ k' = nextK /\ nextK' = nextK + 1 /\ err' = err
             ELSE pc' = "classify" /\ err' = d.cls /\ k' = k /\ nextK' = nextK + 1
       /\ ctx' = IF a.cancel THEN "canceled" ELSE ctx
       /\ hist' = Append(hist, [c |-> "dial"] @@ a)
  /\ UNCHANGED <<attempt, timer, now, ret>>

D_Classify ==
  /\ pc = "classify"
  /\ IF Recoverable(err)
     THEN pc' = "backoff" /\ attempt' = 0 /\ timer' = now /\ ret' = ret /\ rq' = rq
     ELSE \* fatal (Dial turns a context error into nil, which cannot be the class here)
          pc' = "ret" /\ ret' = "err" /\ rq' = OnDRet(rq, [res |-> "err", t |-> now]) /\ UNCHANGED <<attempt, timer>>
  /\ UNCHANGED <<err, now, ctx, k, nextK, sysctl, prev, budget, hist>>

D_Backoff ==
  /\ pc = "backoff"
  /\ \/ /\ ctx = "canceled"          \* select: <-ctx.Done()
        /\ pc' = "ret" /\ ret' = "nil" /\ rq' = OnDRet(rq, [res |-> "nil", t |-> now])
        /\ UNCHANGED <<err, attempt, timer, k, nextK, sysctl, prev, ctx, hist, budget>>
     \/ /\ timer <= now /\ Spend   \* select: <-time.After(delay); then DialFunc
        /\ \E a \in Attempts :
             /\ Canon(a) /\ (a.cancel => ctx = "live")
             /\ LET d == DialResult(a.pre, a.get, a.set, IF a.cancel THEN OnDCancel(rq, T) ELSE rq)
                    r1 == OnDDial(d.rq, [res |-> d.cls, k |-> IF d.cls = "ok" THEN nextK ELSE 0, t |-> now]) IN
                /\ sysctl' = d.sysctl /\ prev' = d.prev
                /\ nextK' = nextK + 1
                /\ ctx' = IF a.cancel THEN "canceled" ELSE ctx
                /\ hist' = Append(hist, [c |-> "dial"] @@ a)
                /\ IF d.cls = "ok"
                   THEN pc' = "task" /\ k' = nextK /\ rq' = r1 /\ UNCHANGED <<err, attempt, timer, ret>>
                   ELSE IF attempt + 1 >= MaxAttempts
                        THEN /\ pc' = "ret" /\ ret' = "err" /\ rq' = OnDRet(r1, [res |-> "err", t |-> now])
                             /\ UNCHANGED <<err, attempt, timer, k>>
                        ELSE /\ pc' = "backoff" /\ attempt' = attempt + 1
                             /\ timer' = now + Min2((attempt + 1) * DelayStep, MaxDelay)
                             /\ rq' = r1 /\ UNCHANGED <<err, k, ret>>
  /\ UNCHANGED <<now>>

\* fn returns o; Dial runs the cleanup closure: LeaveGroup, Close, restore autoconf
D_Task ==
  /\ pc = "task" /\ Spend
  /\ \E o \in FnOut, r \in (IF Advertise THEN RstOut ELSE {"ok"}), c \in BOOLEAN :
       /\ (c => ctx = "live")
       /\ LET r0 == IF c THEN OnDCancel(rq, T) ELSE rq
              r1 == OnDFn(r0, [k |-> k, res |-> o, t |-> now])
              r2 == OnDClose(r1, [s |-> k])
              r3 == IF Advertise THEN OnDSet(r2, [phase |-> "restore", val |-> prev, res |-> r]) ELSE r2
              r4 == OnDDone(r3, [k |-> k]) IN
          /\ sysctl' = IF Advertise /\ r = "ok" THEN prev ELSE sysctl
          /\ ctx' = IF c THEN "canceled" ELSE ctx
          /\ hist' = Append(hist, [c |-> "fn", res |-> o, restore |-> r, cancel |-> c])
          /\ k' = 0
          /\ IF r = "other"
             THEN pc' = "ret" /\ ret' = "err" /\ rq' = OnDRet(r4, [res |-> "err", t |-> now]) /\ err' = err
             ELSE IF o \in {"nil", "canceled"}
             THEN pc' = "ret" /\ ret' = "nil" /\ rq' = OnDRet(r4, [res |-> "nil", t |-> now]) /\ err' = err
             ELSE pc' = "classify" /\ err' = o /\ ret' = ret /\ rq' = r4
  /\ UNCHANGED <<attempt, timer, now, nextK, prev>>

\* stop request while waiting in the back-off (the task / dial variants carry their own flag)
E_Cancel ==
  /\ pc = "backoff" /\ timer > now /\ ctx = "live" /\ Spend
  /\ ctx' = "canceled" /\ rq' = OnDCancel(rq, T)
  /\ hist' = Append(hist, [c |-> "wcancel"])
  /\ UNCHANGED <<pc, err, attempt, timer, now, k, nextK, sysctl, prev, ret>>

Tick ==
  /\ pc = "backoff" /\ ctx = "live" /\ timer > now /\ now < MaxT
  /\ now' = timer
  /\ rq' = OnDAdvance(rq, [t |-> now, to |-> timer])
  /\ UNCHANGED <<pc, err, attempt, timer, ctx, k, nextK, sysctl, prev, ret, budget, hist>>

Next == D_First \/ D_Classify \/ D_Backoff \/ D_Task \/ E_Cancel \/ Tick
Spec == Init /\ [][Next]_vars

---------------------------------------------------------------------------
Req == rq.bad = {}
C11_AtMostOneOpen  == rq.open = 0 \/ rq.socks = {rq.open}
C11_NothingOpenAtReturn == pc = "ret" => k = 0 /\ rq.socks = {}
C11_KernelValue    == sysctl = rq.sysctl            \* the monitor's reconstruction equals the modelled kernel value
C10_Returns        == pc = "ret" => ret \in {"nil", "err"}
\* every complete behaviour is printed once as the script of outcomes to replay
Emit == (pc = "ret" \/ budget = 0) => PrintT(ToJson([h |-> hist, ret |-> ret]))
=============================================================================
