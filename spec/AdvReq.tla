------------------------------ MODULE AdvReq ------------------------------
(***************************************************************************)
(* REQUIREMENT LAYER for one advertising interface (properties C04, C06,   *)
(* C07, C08, C09, C10 of /verif/properties.jsonl), written as a            *)
(* deterministic monitor over OBSERVABLE events only: calls on the         *)
(* system.Conn / system.State boundary, counter updates, the driver's own  *)
(* inputs (arrivals, cancel, link events, time advance) and Run's return.  *)
(* It never mentions goroutines or internal variables.                     *)
(*                                                                         *)
(* The same operators are used twice:                                      *)
(*  - composed with the implementation-shaped model (Advertiser.tla), so   *)
(*    that TLC checks  Impl => Requirement  over every interleaving;       *)
(*  - driven by events recorded from the real code (AdvTrace.tla), which   *)
(*    decides the verdict of the checks.                                   *)
(* m.bad is the set of names of the clauses violated so far.               *)
(***************************************************************************)
EXTENDS Integers, Sequences, FiniteSets, Waits

CONSTANTS MinDelay,     \* MIN_DELAY_BETWEEN_RAS   (trace: 3000 ms)
          MaxRADelay,   \* MAX_RA_DELAY_TIME       (trace: 500 ms)
          BackoffUnit,  \* receive timeout back-off unit (trace: 50 ms)
          Retries       \* consecutive receive timeouts that end the session (5)
          \* (InitCap, InitCount, Sec come from Waits: 16000 ms, 3, 1000 ms in traces)

ALLNODES == "allnodes"
UNSPEC   == "unspec"

CounterNames == {"u", "m", "txerr", "inv", "rx"}
ZeroCnt == [c \in CounterNames |-> 0]

\* Initial monitor state for one scenario. c = [unicast, cfglife, mon, strict, quiet, miniv, maxiv]
ReqInit(c) ==
  [ unicast  |-> c.unicast,    \* unicast_only configured
    miniv    |-> c.miniv,      \* Min/MaxRtrAdvInterval
    maxiv    |-> c.maxiv,
    quietRun |-> c.quiet,      \* no solicitation is ever sent in this scenario and MinRtrAdvInterval >= 2 MinDelay:
                               \* multicast RA instants are then exactly the loop's request instants
    prevReq  |-> -1,           \* previous request instant in a quiet run
    waitFirst|-> FALSE,        \* this session's loop waited before its first request (index of the waits shifted by one)
    strictMc |-> c.strict,     \* MinRtrAdvInterval exceeds the scenario horizon: after the loop's first request no
                               \* periodic trigger can occur before InitCap, so every multicast RA must be explained
    dialT    |-> 0,            \* time of the last successful (re)initialisation
    lastTrig |-> -1,           \* read time of the most recent multicast trigger (RS from ::)
    credit   |-> 0,            \* periodic requests not yet served (1 after each (re)initialisation)
    cfglife  |-> c.cfglife,    \* configured default lifetime (s)
    monmode  |-> c.mon,        \* TRUE for a Monitor task (no RA may ever be sent)
    k        |-> 0,            \* current connection id (0 = none open)
    cleaned  |-> {},           \* connection ids already cleaned up
    nW       |-> 0,            \* wcalls in the current session
    lastMc   |-> -1,           \* time of the last non-final multicast wcall of this session
    owedM    |-> {},           \* read times of unserved multicast triggers (RS from ::)
    owedU    |-> <<>>,         \* unanswered unicast solicitations [dst, t]
    pend     |-> <<>>,         \* forwarding reads not yet consumed by a wcall
    inQuery  |-> FALSE,        \* a metrics scrape / debug API request is in progress (driver goroutine)
    qreads   |-> <<>>,         \* forwarding reads made by that query
    nFalse   |-> 0,            \* advertiser-path generations since the last quiescent point that found forwarding off
    nMisLog  |-> 0,            \* interface_not_forwarding log lines since the last quiescent point
    nOpen    |-> 0,            \* WriteTo calls in flight
    nHeld    |-> 0,            \* gates held by the driver
    anyHold  |-> FALSE,        \* the driver has held a call open in this scenario: delay bounds are then its doing
    cancelAt |-> -1, term |-> FALSE,
    upAtCancel |-> FALSE,      \* a fault-free session was up when the stop request arrived
    faultAtCancel |-> FALSE,   \* a fault was already pending when the stop request arrived
    faultAt  |-> -1,           \* a fault was observed at this time and the session is still up
    fcls     |-> {},           \* classes of the faults seen on the open connection: "rec" (link change, non-permission
                               \* system call error) / "fatal" (anything else)
    doneCls  |-> {},           \* fcls of the connection cleaned up last, while no dial attempt has followed
    postDone |-> FALSE,        \* a connection was cleaned up and nothing (dial attempt, return) has followed yet
    retAt    |-> -1,
    sureFinal|-> 0,            \* post-cancel multicast wcalls with life 0 although forwarding read TRUE
    finalSeen|-> FALSE,        \* the final RA has been called
    lastW    |-> [mc |-> FALSE, life |-> -1, t |-> -1, init |-> FALSE],
    body     |-> "",           \* body digest of the RAs of this scenario (static configuration)
    reading  |-> FALSE,        \* listener is inside ReadFrom
    nTO      |-> 0,            \* consecutive receive timeouts
    resumeAt |-> -1,           \* next ReadFrom must be issued exactly then (back-off)
    finalExcused |-> FALSE,    \* a forwarding read failed after the stop request
    fwdFailed|-> FALSE,        \* a forwarding read of this session failed (its transmit-error count is then not predicted)
    tgate    |-> FALSE,        \* the driver holds the terminator's mutex (a signal is being delivered under Serve)
    lq       |-> 0,            \* link events certainly still queued on the subscription (they arrived between sessions)
    lm       |-> 0,            \* link events that may still be queued (they arrived while the session was already going down)
    linkSeen |-> FALSE,        \* this session's link watcher has had its event
    lastDialT|-> -1,           \* instant of the latest dial attempt
    nBurst   |-> 0,            \* dial attempts at that same instant, each following a session that a fault ended
    nRead    |-> 0,            \* forwarding reads on the advertiser's own paths since the last quiescent point
    nUse     |-> 0,            \* RA generations that are called for since then: transmissions + valid RAs to compare with
    readFail |-> FALSE,        \* one of those reads failed (its generation is then not accounted)
    invSrcs  |-> {},           \* sources of messages that failed validation (C09: they are owed nothing)
    nRA      |-> 0,            \* valid RAs received
    nHook    |-> 0,            \* consistency reports made
    exp      |-> ZeroCnt,      \* counters the requirement expects
    obs      |-> ZeroCnt,      \* counters observed
    bad      |-> {} ]      \* names of the violated clauses

\* error classes of the harness that the Dialer re-establishes the task for (system call error other than permission,
\* link not ready, link change); every other class ends the task
RecClasses == {"sys", "lnr", "link", "unreach"}
Flag(m, s) == [m EXCEPT !.bad = @ \cup {s}]
Up(m) == m.k # 0
Live(m) == Up(m) /\ m.cancelAt = -1 /\ m.faultAt = -1

Bump(c, name) == [c EXCEPT ![name] = @ + 1]

---------------------------------------------------------------------------
\* Deadlines that have passed at time T (evaluated at quiescent points).
Deadlines(m, T) ==
  IF ~Live(m) \/ m.anyHold THEN m
  ELSE IF \E i \in 1..Len(m.owedU) : T - m.owedU[i].t >= MaxRADelay THEN Flag(m, "c07-unanswered-in-time")
  ELSE IF \E t \in m.owedM : T - t > MinDelay THEN Flag(m, "c06-trigger-unserved")
  ELSE m

\* C10 recovery policy at the task level: the Dialer may only try again after a recoverable cause. When causes of
\* both classes were seen on one connection the first one reported wins a race, so either outcome is allowed.
OnDial(m, e) ==
  LET m0 == IF m.postDone /\ m.doneCls = {"fatal"} THEN Flag(m, "c10-task-retried-after-unrecoverable-fault") ELSE m
      \* the back-off only separates FAILED dial attempts: when every dial succeeds and the task fails at once each time
      \* the task is re-established again and again without any delay (known finding, see known_findings.json)
      burst == IF e.t = m.lastDialT /\ m.postDone /\ m.doneCls # {} THEN m.nBurst + 1 ELSE 1
      m0a == IF m.postDone /\ m.doneCls = {} /\ m.cancelAt = -1 THEN Flag(m0, "c10-task-re-established-without-any-fault") ELSE m0
      m0b == IF burst = 4 /\ m.cancelAt = -1 THEN Flag(m0a, "c10-redial-loop-without-backoff") ELSE m0a
      mp == [m0b EXCEPT !.postDone = FALSE, !.doneCls = {}, !.lastDialT = e.t, !.nBurst = burst] IN
  IF e.res # "ok" THEN mp
  ELSE LET m1 == IF Up(mp) THEN Flag(mp, "c11-dial-while-connection-open") ELSE mp IN
       [m1 EXCEPT !.fcls = IF m.lq > 0 THEN {"rec"} ELSE {}, !.lq = IF @ > 0 THEN @ - 1 ELSE 0, !.linkSeen = m.lq > 0, !.k = e.k, !.nW = 0, !.credit = 1, !.dialT = e.t, !.lastTrig = -1, !.prevReq = -1, !.waitFirst = FALSE, !.lastMc = -1, !.owedM = {}, !.owedU = <<>>, !.pend = <<>>,
                  \* a link event that was waiting on the subscription hits the new session at once
                  !.faultAt = IF m.lq > 0 /\ m.cancelAt = -1 THEN e.t ELSE -1, !.reading = FALSE, !.nTO = 0, !.resumeAt = -1]

OnDone(m, e) ==
  LET m1 == IF e.k \in m.cleaned THEN Flag(m, "c11-cleanup-twice")
            ELSE IF e.k # m.k THEN Flag(m, "c11-cleanup-of-unknown-connection")
            ELSE IF m.nOpen > 0 THEN Flag(m, "c10-cleanup-with-write-in-flight")
            ELSE IF m.reading /\ FALSE THEN m ELSE m IN
  [m1 EXCEPT !.cleaned = @ \cup {e.k}, !.k = 0, !.faultAt = -1, !.owedM = {}, !.owedU = <<>>,
             !.doneCls = IF m.fcls = {} /\ m.lm > 0 THEN {"rec"} ELSE m.fcls, !.lm = IF m.fcls = {} /\ @ > 0 THEN @ - 1 ELSE @,
             !.postDone = TRUE, !.fcls = {}]

OnRCall(m, e) ==
  LET m1 == IF e.k \in m.cleaned THEN Flag(m, "c10-read-after-cleanup")
            ELSE IF m.retAt # -1 THEN Flag(m, "c08-read-after-return")
            ELSE IF m.resumeAt # -1 /\ e.t # m.resumeAt /\ m.cancelAt = -1 /\ m.faultAt = -1
                 THEN Flag(m, "c09-c10-receive-backoff-wrong")
            ELSE m IN
  [m1 EXCEPT !.reading = TRUE, !.resumeAt = -1]

Valid(e) == e.hl = 255 /\ e.kind \in {"rs", "ra", "ns", "na"}

OnIn(m, e) ==
  LET m0 == [m EXCEPT !.reading = FALSE] IN
  IF e.kind = "deadline" THEN m0
  ELSE IF e.kind = "timeout" THEN
       IF m0.nTO + 1 >= Retries
       THEN \* the last timeout still gets its back-off; then the session must end
            [m0 EXCEPT !.nTO = @ + 1, !.fcls = @ \cup {"fatal"},      \* a timeout is not a system call error
                       !.faultAt = IF @ = -1 /\ m0.cancelAt = -1 THEN e.t + m0.nTO * BackoffUnit ELSE @]
       ELSE [m0 EXCEPT !.nTO = @ + 1, !.resumeAt = e.t + m0.nTO * BackoffUnit]
  ELSE IF e.kind = "readerr" THEN
       [m0 EXCEPT !.faultAt = IF @ = -1 /\ m0.cancelAt = -1 THEN e.t ELSE @,
                  !.fcls = @ \cup {IF e.cls \in RecClasses THEN "rec" ELSE "fatal"}]
  ELSE IF e.hl # 255 THEN
       \* C09: counted invalid, nothing else may follow from it; does not touch the retry budget
       [m0 EXCEPT !.exp = Bump(@, "inv"), !.invSrcs = @ \cup {e.src}]
  ELSE LET m1 == [m0 EXCEPT !.nTO = 0, !.exp = Bump(@, "rx"), !.nRA = IF e.kind = "ra" THEN @ + 1 ELSE @,
                            !.nUse = IF e.kind = "ra" /\ ~m.monmode THEN @ + 1 ELSE @] IN
       IF m.monmode THEN m1
       ELSE IF e.kind = "rs" THEN
            IF e.src = UNSPEC
            THEN IF m1.unicast THEN m1 ELSE [m1 EXCEPT !.owedM = @ \cup {e.t}, !.lastTrig = e.t]
            ELSE [m1 EXCEPT !.owedU = Append(@, [dst |-> e.src, t |-> e.t])]
       ELSE IF e.kind = "ra" THEN m1
       ELSE [m1 EXCEPT !.exp = Bump(@, "inv"), !.invSrcs = @ \cup {e.src}]      \* other NDP type on an advertising interface

OnFwd(m, e) ==
  IF m.inQuery THEN [m EXCEPT !.qreads = Append(@, e.val)]
  ELSE LET m0 == IF m.retAt # -1 THEN Flag(m, "c08-ra-generation-after-return") ELSE m
           m1 == [m0 EXCEPT !.nRead = @ + 1, !.readFail = @ \/ ~e.ok] IN
       IF ~e.ok
       THEN \* no RA can be generated: the transmission (or comparison) this read belongs to fails, which is a fault of the
            \* session like a failed write (and is counted as a transmit error when it was a scheduled transmission)
            [m1 EXCEPT !.fcls = @ \cup {IF e.cls \in RecClasses THEN "rec" ELSE "fatal"}, !.fwdFailed = TRUE,
                       !.finalExcused = @ \/ m1.cancelAt # -1,      \* the final RA could not be built (outside C08's quantifier)
                       !.faultAt = IF @ = -1 /\ m1.cancelAt = -1 /\ Up(m1) THEN e.t ELSE @]
       ELSE
       [m1 EXCEPT !.pend = Append(@, e.val),
                  !.nFalse = IF ~e.val /\ m.cfglife > 0 /\ m.cancelAt = -1 THEN @ + 1 ELSE @]

\* C04 on the metrics and debug-API paths: the query reads forwarding once for this interface and reports
\* exactly what an RA generated at that moment would carry
OnQueryCall(m, e) == [m EXCEPT !.inQuery = TRUE, !.qreads = <<>>]
OnScrape(m, e) ==     \* e.ok, e.fwd (gauge), e.misconf (interface_not_forwarding sample present)
  LET m1 == IF ~e.ok THEN m          \* an error answer is judged by C17
            ELSE IF Len(m.qreads) # 1 THEN Flag(m, "c04-scrape-did-not-read-forwarding-exactly-once")
            ELSE IF e.fwd # m.qreads[1] THEN Flag(m, "c04-forwarding-gauge-differs-from-state")
            ELSE IF e.misconf # (~m.qreads[1] /\ m.cfglife > 0 /\ ~m.monmode) THEN Flag(m, "c04-misconfiguration-gauge-wrong")
            ELSE m
  IN [m1 EXCEPT !.inQuery = FALSE, !.qreads = <<>>]
OnApi(m, e) ==        \* e.ok, e.life (router_lifetime_seconds for this interface)
  LET m1 == IF ~e.ok \/ m.monmode THEN m
            ELSE IF Len(m.qreads) # 1 THEN Flag(m, "c04-api-did-not-read-forwarding-exactly-once")
            ELSE IF e.life # (IF m.qreads[1] THEN m.cfglife ELSE 0) THEN Flag(m, "c04-api-router-lifetime-wrong")
            ELSE m
  IN [m1 EXCEPT !.inQuery = FALSE, !.qreads = <<>>]
OnMisLog(m, e) == [m EXCEPT !.nMisLog = @ + 1]

\* index of the first pending forwarding read with value v (0 if none)
FirstPend(p, v) == IF \E i \in 1..Len(p) : p[i] = v
                   THEN CHOOSE i \in 1..Len(p) : p[i] = v /\ \A j \in 1..(i-1) : p[j] # v
                   ELSE 0
DropAt(s, i) == SubSeq(s, 1, i - 1) \o SubSeq(s, i + 1, Len(s))

FirstOwed(q, d) == IF \E i \in 1..Len(q) : q[i].dst = d
                   THEN CHOOSE i \in 1..Len(q) : q[i].dst = d /\ \A j \in 1..(i-1) : q[j].dst # d
                   ELSE 0

OnWCall(m, e) ==
  LET mc      == e.mc
      initial == ~m.unicast /\ m.nW = 0
      afterC  == m.cancelAt # -1
      \* which forwarding read explains this lifetime?
      wantT   == FirstPend(m.pend, TRUE)
      wantF   == FirstPend(m.pend, FALSE)
      finalCand == afterC /\ m.term /\ mc /\ e.life = 0 /\ ~initial
      \* (life, read) consistency: C04
      explT   == wantT # 0 /\ e.life = m.cfglife
      explF   == wantF # 0 /\ e.life = 0
      explFin == finalCand /\ (wantT # 0 \/ wantF # 0)
      used    == IF explT THEN wantT ELSE IF explF THEN wantF ELSE IF explFin THEN (IF wantT # 0 THEN wantT ELSE wantF) ELSE 0
      sure    == finalCand /\ ~explF /\ m.cfglife > 0     \* life 0 although forwarding was read TRUE: only the final RA
      oi      == FirstOwed(m.owedU, e.dst)
      m1 == IF e.k \in m.cleaned \/ e.k # m.k THEN Flag(m, "c10-write-on-cleaned-connection")
            ELSE IF m.retAt # -1 THEN Flag(m, "c08-write-after-return")
            ELSE IF m.monmode THEN Flag(m, "monitor-transmitted")
            ELSE IF m.finalSeen THEN Flag(m, "c08-write-after-final-ra")
            ELSE IF e.type # "ra" THEN Flag(m, "non-ra-transmitted")
            ELSE IF mc /\ m.unicast THEN Flag(m, "c07-multicast-in-unicast-only")
            ELSE IF mc /\ e.dst # ALLNODES THEN Flag(m, "multicast-to-wrong-group")
            ELSE IF used = 0 THEN Flag(m, "c04-lifetime-not-explained-by-a-forwarding-read")
            ELSE IF sure /\ ~m.term THEN Flag(m, "c08-zero-lifetime-ra-on-reload")
            ELSE IF sure /\ m.sureFinal >= 1 THEN Flag(m, "c08-second-final-ra")
            ELSE IF sure /\ m.nOpen > 0 THEN Flag(m, "c08-final-ra-overtakes-write-in-flight")
            ELSE IF mc /\ ~initial /\ ~finalCand /\ m.lastMc # -1 /\ e.t - m.lastMc < MinDelay
                 THEN Flag(m, "c06-multicast-spacing")
            \* the first periodic RA of a quiet session: the loop asks at once and the RA is held back to MIN_DELAY after the
            \* initial one (what the code does), or the loop waits an allowed first wait before it asks (equally legal)
            ELSE IF mc /\ ~initial /\ ~finalCand /\ m.quietRun /\ m.nW = 1 /\ e.t # m.dialT + MinDelay
                    /\ ~AllowedWait(0, m.miniv, m.maxiv, e.t - m.dialT)
                 THEN Flag(m, "c05-c06-first-periodic-ra-neither-at-min-delay-nor-after-an-allowed-wait")
            ELSE IF mc /\ ~initial /\ ~finalCand /\ m.quietRun /\ m.nW >= 2
                    /\ ~AllowedWait(m.nW - 2, m.miniv, m.maxiv, e.t - m.prevReq)
                    /\ ~(m.waitFirst /\ AllowedWait(m.nW - 1, m.miniv, m.maxiv, e.t - m.prevReq))
                 THEN Flag(m, "c05-wait-outside-allowed-range")
            ELSE IF mc /\ ~initial /\ ~finalCand /\ m.strictMc /\ e.t - m.dialT < InitCap /\ m.owedM = {} /\ m.credit = 0
                    /\ ~(m.lastTrig # -1 /\ e.t - m.lastTrig <= MinDelay)   \* a burst may legitimately get a second RA
                 THEN Flag(m, "c07-c09-multicast-ra-without-any-trigger")
            ELSE IF ~mc /\ oi = 0 /\ e.dst \in m.invSrcs THEN Flag(m, "c09-ra-in-response-to-an-invalid-message")
            ELSE IF ~mc /\ oi = 0 THEN Flag(m, "c07-unsolicited-or-duplicate-unicast-ra")
            ELSE IF ~mc /\ ~m.anyHold /\ e.t - m.owedU[oi].t >= MaxRADelay THEN Flag(m, "c07-unicast-ra-late")
            ELSE IF m.body # "" /\ e.body # m.body THEN Flag(m, "c04-c08-content-other-than-lifetime-changed")
            ELSE m
  IN [m1 EXCEPT !.nW = @ + 1, !.nOpen = @ + 1, !.nUse = @ + 1,
                !.pend = IF used = 0 THEN @ ELSE DropAt(@, used),
                !.lastMc = IF mc /\ ~finalCand THEN e.t ELSE @,
                !.credit = IF mc /\ ~initial THEN 0 ELSE @,
                !.prevReq = IF mc /\ ~finalCand THEN (IF m.nW <= 1 /\ (m.nW = 0 \/ e.t = m.dialT + MinDelay) THEN m.dialT ELSE e.t) ELSE @,
                !.waitFirst = IF mc /\ ~finalCand /\ m.nW = 1 THEN e.t # m.dialT + MinDelay ELSE @,
                !.owedM = IF mc THEN {} ELSE @,
                !.owedU = IF ~mc /\ oi # 0 THEN DropAt(@, oi) ELSE @,
                !.sureFinal = IF sure THEN @ + 1 ELSE @,
                !.finalSeen = IF sure THEN TRUE ELSE @,
                !.body = IF @ = "" THEN e.body ELSE @,
                !.lastW = [mc |-> mc, life |-> e.life, t |-> e.t, init |-> initial]]

OnWRet(m, e) ==
  LET mc == e.mc
      initial == m.lastW.init /\ m.nW = 1       \* the initial RA is not a scheduled transmission
      final   == m.finalSeen
      m1 == IF m.nOpen = 0 THEN Flag(m, "wret-without-wcall")
            ELSE IF m.retAt # -1 THEN Flag(m, "c08-write-completes-after-return")
            ELSE IF e.k \in m.cleaned THEN Flag(m, "c10-write-completes-after-cleanup")
            ELSE m
      counted == ~initial /\ ~final
      m2 == [m1 EXCEPT !.nOpen = IF @ > 0 THEN @ - 1 ELSE 0,
                       !.exp = IF ~counted THEN @
                               ELSE IF ~e.ok THEN Bump(@, "txerr")
                               ELSE IF mc THEN Bump(@, "m") ELSE Bump(@, "u"),
                       !.faultAt = IF ~e.ok /\ ~final /\ @ = -1 /\ m1.cancelAt = -1 THEN e.t ELSE @,
                       !.fcls = IF e.ok \/ final THEN @ ELSE @ \cup {IF e.cls \in RecClasses THEN "rec" ELSE "fatal"}]
  IN m2

\* a counter update adds e.v thousandths (1000 for the increment by one that every counted event is worth)
OnCnt(m, e) == IF e.c \in CounterNames THEN [m EXCEPT !.obs = [@ EXCEPT ![e.c] = @ + e.v \div 1000 + (IF e.v % 1000 = 0 THEN 0 ELSE 1000000)]] ELSE m

OnHook(m, e) ==      \* consistency-check path: the RA handed to the hook is a generated RA too (C04)
  LET wantT == FirstPend(m.pend, TRUE)
      wantF == FirstPend(m.pend, FALSE)
      used  == IF wantT # 0 /\ e.life = m.cfglife THEN wantT ELSE IF wantF # 0 /\ e.life = 0 THEN wantF ELSE 0
      m1 == IF m.nHook >= m.nRA THEN Flag(m, "c09-consistency-report-without-a-valid-ra")
            ELSE IF used = 0 THEN Flag(m, "c04-hook-lifetime-not-explained-by-a-forwarding-read")
            ELSE IF m.body # "" /\ e.body # m.body THEN Flag(m, "c04-hook-content-changed") ELSE m
  IN [m1 EXCEPT !.pend = IF used = 0 THEN @ ELSE DropAt(@, used), !.nHook = @ + 1]

OnCancel(m, e) == IF m.cancelAt # -1 THEN m
                  ELSE [m EXCEPT !.cancelAt = e.t, !.term = e.term,
                                 !.upAtCancel = Up(m) /\ m.faultAt = -1, !.faultAtCancel = m.faultAt # -1]
\* a link event is delivered on a buffered subscription: the session's watcher takes the first one; one that arrives
\* between sessions waits for the next session, one that arrives while the session is already going down may or may not
OnLink(m, e)   == IF ~Up(m) THEN [m EXCEPT !.lq = IF @ < 8 THEN @ + 1 ELSE @]
                  ELSE IF m.linkSeen \/ m.faultAt # -1 THEN [m EXCEPT !.lm = @ + 1, !.fcls = @ \cup {"rec"}]
                  ELSE LET m1 == [m EXCEPT !.fcls = @ \cup {"rec"}, !.linkSeen = TRUE] IN
                       IF m.cancelAt = -1 THEN [m1 EXCEPT !.faultAt = e.t] ELSE m1
OnHold(m, e)    == [m EXCEPT !.nHeld = @ + 1, !.anyHold = TRUE]
OnRelease(m, e) == [m EXCEPT !.nHeld = IF @ > 0 THEN @ - 1 ELSE 0]

\* A quiescent point at time T: every goroutine is blocked.
OnQuiet(m, e) ==
  LET m1 == Deadlines(m, e.t)
      m2a == IF m1.nOpen = 0 /\ m1.cancelAt = -1 /\ (IF m1.fwdFailed THEN [m1.obs EXCEPT !.txerr = 0] # [m1.exp EXCEPT !.txerr = 0] ELSE m1.obs # m1.exp) THEN Flag(m1, "c07-counters-differ-from-transmissions-and-receptions") ELSE m1
      m2 == IF m1.nOpen = 0 /\ m1.cancelAt = -1 /\ m1.obs.inv # m1.exp.inv THEN Flag(m2a, "c09-invalid-counter-differs-from-invalid-messages") ELSE m2a
      m2b == IF Live(m2) /\ ~m2.unicast /\ ~m2.monmode /\ m2.lastMc # -1 /\ e.t - m2.lastMc > RoundSec(m2.maxiv) + MinDelay
             THEN Flag(m2, "c05-unsolicited-multicast-ra-overdue") ELSE m2
      m3 == IF Live(m2b) /\ ~m2b.reading /\ m2.resumeAt = -1 /\ m2.nHeld = 0 /\ m2.retAt = -1
            THEN Flag(m2b, "c09-listener-not-receiving") ELSE m2b
      m4 == IF m3.cancelAt = -1 /\ m3.nMisLog # m3.nFalse THEN Flag(m3, "c04-misconfiguration-log-lines-differ-from-generations") ELSE m3
      \* C09 / C04: our own RA is generated (forwarding read) only for a transmission and for the comparison with a valid
      \* received RA; anything else - an invalid message in particular - must not set a generation off
      \* (while the driver holds a call open - a forwarding read at its gate - a generation may be half done: the account
      \* is carried over to the next quiescent point without a hold)
      m5 == IF m4.nHeld = 0 /\ m4.cancelAt = -1 /\ ~m4.readFail /\ m4.nRead # m4.nUse
            THEN Flag(m4, "c04-c09-ra-generated-without-a-transmission-or-a-valid-ra") ELSE m4
  IN IF m4.nHeld > 0 THEN [m5 EXCEPT !.pend = <<>>, !.nFalse = 0, !.nMisLog = 0]
     ELSE [m5 EXCEPT !.pend = <<>>, !.nFalse = 0, !.nMisLog = 0, !.nRead = 0, !.nUse = 0, !.readFail = FALSE]       \* nobody is between a forwarding read and its transmission

\* The driver is about to let virtual time pass (only ever at a quiescent point).
OnAdvance(m, e) ==
  IF m.faultAt # -1 /\ m.faultAt <= e.t /\ Up(m) /\ m.nOpen = 0 /\ m.nHeld = 0 /\ m.retAt = -1
  THEN Flag(m, "c10-half-alive-after-fault")
  ELSE IF m.cancelAt # -1 /\ m.retAt = -1 /\ m.nOpen = 0 /\ m.nHeld = 0
  THEN Flag(m, "c08-c10-stop-not-prompt")
  ELSE m

OnRet(m, e) ==
  LET needFinal == m.cancelAt # -1 /\ m.term /\ ~m.unicast /\ ~m.monmode /\ m.upAtCancel /\ e.res = "nil" /\ ~m.finalExcused
      m1 == IF m.retAt # -1 THEN Flag(m, "returned-twice")
            ELSE IF Up(m) THEN Flag(m, "c11-return-without-cleanup")
            ELSE IF m.nOpen > 0 THEN Flag(m, "c08-return-with-write-in-flight")
            \* (a fault of its own that is logged after the stop request - two interfaces failing in the same instant under
            \* Serve, a read error racing the cancellation - may win the race for the result: doneCls # {})
            ELSE IF m.cancelAt # -1 /\ e.res # "nil" /\ ~m.faultAtCancel /\ m.doneCls = {}
                 THEN Flag(m, "c08-c10-error-reported-on-clean-stop")
            ELSE IF m.cancelAt = -1 /\ m.postDone /\ m.doneCls = {"rec"} /\ e.res # "nil"
                 THEN Flag(m, "c10-task-ended-after-recoverable-fault")
            ELSE IF m.cancelAt = -1 /\ m.postDone /\ m.doneCls # {} /\ e.res = "nil"
                 THEN Flag(m, "c10-fault-not-reported")
            \* the task gave up although nothing failed (no read / write / state error, no exhausted timeouts, no link
            \* event, no failed dial): e.g. invalid messages used up the receive retries
            ELSE IF m.cancelAt = -1 /\ m.postDone /\ m.doneCls = {} /\ e.res # "nil"
                 THEN Flag(m, "c09-c10-task-ended-without-any-fault")
            ELSE IF needFinal /\ ~(m.lastW.mc /\ m.lastW.life = 0 /\ m.lastW.t >= m.cancelAt)
                 THEN Flag(m, "c08-final-ra-missing-or-not-last")
            ELSE m
  IN [m1 EXCEPT !.retAt = e.t]

\* Under the real Server.Serve: while the driver holds the terminator's mutex the signal kind cannot have been
\* recorded, so no task may already be asking for it (C08: the final RA depends on the answer; C20: the ordering).
OnTGate(m, e)   == [m EXCEPT !.tgate = e.held]
OnTermAsk(m, e) == IF m.tgate THEN Flag(m, "c08-c20-terminate-asked-before-the-signal-kind-was-recorded") ELSE m
OnSRet(m, e)    == IF m.retAt = -1 THEN Flag(m, "c20-serve-returned-before-every-task") ELSE m

OnLeak(m, e)  == Flag(m, "c08-c10-goroutine-leak")
OnHang(m, e)  == Flag(m, "c08-c10-run-did-not-return")
OnPanic(m, e) == Flag(m, "panic")
=============================================================================
