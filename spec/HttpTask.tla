------------------------------ MODULE HttpTask ------------------------------
(* Implementation-shaped model of httpTask.Run = serve(ctx, ll, 3 s, fn) with fn = listen; close(readyC);         *)
(* http.Server.Serve until the context is cancelled (server.go), against an environment that keeps the address    *)
(* occupied until `busy` and cancels the context at `cancel`. Discrete urgent time in milliseconds: time moves    *)
(* only when no step of the task or of the environment is enabled, to the next deadline. At the end the run is    *)
(* summarised as the same "http" event the loopback driver records from the real task, and judged by the same     *)
(* operator ServReq!OnHttp; TLC checks Impl => Requirement for every (busy, cancel) pair and every resolution of  *)
(* the races (cancellation at the instant of an attempt; an attempt at the instant the address is let go).        *)
EXTENDS ServReq
CONSTANTS Busys, Cancels, Delay, Attempts
VARIABLES now, pc, i, nextAt, ready, ret, err, cancelled, busy, cancel, rq
hv == <<now, pc, i, nextAt, ready, ret, err, cancelled, busy, cancel, rq>>

HInit == /\ busy \in Busys /\ cancel \in Cancels
         /\ now = 0 /\ pc = "top" /\ i = 0 /\ nextAt = -1 /\ ready = -1 /\ ret = -1 /\ err = FALSE
         /\ cancelled = FALSE /\ rq = SInit(0)

\* environment: the context is cancelled at its instant
E_Cancel == /\ ~cancelled /\ now = cancel /\ cancelled' = TRUE
            /\ UNCHANGED <<now, pc, i, nextAt, ready, ret, err, busy, cancel, rq>>

Return(e) == /\ pc' = "done" /\ ret' = now /\ err' = e

\* for i := 0; i < attempts; i++ { if ctx.Err() != nil { return nil } ...
S_Top == /\ pc = "top"
         /\ IF i >= Attempts THEN Return(TRUE) /\ UNCHANGED <<nextAt>>          \* "failed to start listener"
            ELSE IF cancelled THEN Return(FALSE) /\ UNCHANGED <<nextAt>>
            ELSE IF i = 0 THEN pc' = "listen" /\ UNCHANGED <<ret, err, nextAt>>
            ELSE pc' = "wait" /\ nextAt' = now + Delay /\ UNCHANGED <<ret, err>>
         /\ UNCHANGED <<now, i, ready, cancelled, busy, cancel, rq>>

\* select { case <-ctx.Done(): return nil; case <-time.After(delay): }
S_WaitCancel == /\ pc = "wait" /\ cancelled /\ Return(FALSE)
                /\ UNCHANGED <<now, i, nextAt, ready, cancelled, busy, cancel, rq>>
S_WaitDue == /\ pc = "wait" /\ now = nextAt /\ pc' = "listen"
             /\ UNCHANGED <<now, i, nextAt, ready, ret, err, cancelled, busy, cancel, rq>>

\* fn(): net.Listen fails with a *net.OpError while the address is occupied (either way at the very instant it is let go)
S_ListenFail == /\ pc = "listen" /\ now <= busy /\ busy > 0
                /\ i' = i + 1 /\ pc' = "top"
                /\ UNCHANGED <<now, nextAt, ready, ret, err, cancelled, busy, cancel, rq>>
S_ListenOK == /\ pc = "listen" /\ now >= busy
              /\ ready' = now /\ pc' = "serving"                                  \* close(t.readyC); s.Serve(l)
              /\ UNCHANGED <<now, i, nextAt, ret, err, cancelled, busy, cancel, rq>>

\* <-ctx.Done(); s.Close(): Serve returns http.ErrServerClosed, fn's deferred wg.Wait() is satisfied, serve returns nil.
\* Close() does not wait for requests that are still being handled (a graceful Shutdown would: this step would then
\* need "no request in flight" as a further enabling condition, and Ends would fail); the loopback driver has such a
\* request in one scenario.
S_Closed == /\ pc = "serving" /\ cancelled /\ Return(FALSE)
            /\ UNCHANGED <<now, i, nextAt, ready, cancelled, busy, cancel, rq>>

\* the run as the driver records it
Event == [busy |-> busy, cancel |-> cancel, ready |-> ready, ret |-> ret, err |-> err,
          served |-> ready >= 0, alive |-> FALSE]
Finish == /\ pc = "done" /\ pc' = "judged" /\ rq' = OnHttp(rq, Event)
          /\ UNCHANGED <<now, i, nextAt, ready, ret, err, cancelled, busy, cancel>>

Internal == S_Top \/ S_WaitCancel \/ S_WaitDue \/ S_ListenFail \/ S_ListenOK \/ S_Closed \/ E_Cancel \/ Finish
Deadlines == (IF ~cancelled /\ cancel > now THEN {cancel} ELSE {}) \cup (IF pc = "wait" /\ nextAt > now THEN {nextAt} ELSE {})
Tick == /\ ~ENABLED Internal /\ Deadlines # {}
        /\ now' = CHOOSE d \in Deadlines : \A x \in Deadlines : d <= x
        /\ UNCHANGED <<pc, i, nextAt, ready, ret, err, cancelled, busy, cancel, rq>>
HNext == Internal \/ Tick
HSpec == HInit /\ [][HNext]_hv /\ WF_hv(HNext)

Req == rq.bad = {}
\* the task always ends, and it ends without an error unless the attempt budget is exhausted
Ends == <>(pc = "judged")
NoErrUnlessExhausted == pc = "judged" /\ err => i >= Attempts
\* readiness is reported only with the listener open
ReadyOnlyWhenFree == ready >= 0 => ready >= busy
=============================================================================
