------------------------------ MODULE WatchReq ------------------------------
(* C19: link-state subscriptions (internal/netstate/watcher.go). The          *)
(* requirement as a deterministic state machine over the calls made on the    *)
(* Watcher: Subscribe, notify (one batch = interface -> sequence of changes), *)
(* draining a subscriber's channel, end of watching. A subscriber record:     *)
(* [iface, mask, buf, closed, late] (late = subscribed after watching ended). *)
EXTENDS Integers, Sequences, FiniteSets

CONSTANT Cap      \* buffer slots per subscriber (8)

Pow2w(k) == CASE k = 0 -> 1 [] k = 1 -> 2 [] k = 2 -> 4 [] k = 3 -> 8 [] k = 4 -> 16 [] k = 5 -> 32 [] k = 6 -> 64 [] k = 7 -> 128
Bit(n, k) == (n \div Pow2w(k)) % 2 = 1
Intersects(mask, change) == \E k \in 0..6 : Bit(mask, k) /\ Bit(change, k)

WInit == [subs |-> <<>>, ended |-> FALSE, bad |-> {}]
WFlag(w, s) == [w EXCEPT !.bad = @ \cup {s}]

OnSubscribe(w, e) ==
  [w EXCEPT !.subs = Append(@, [iface |-> e.iface, mask |-> e.mask, buf |-> <<>>, closed |-> FALSE, late |-> w.ended])]

\* deliver one change to one subscriber: appended unless its buffer is full (dropped, never queued)
Deliver(s, iface, c) ==
  IF s.iface = iface /\ Intersects(s.mask, c) /\ ~s.closed /\ Len(s.buf) < Cap THEN [s EXCEPT !.buf = Append(@, c)] ELSE s
RECURSIVE DeliverAll(_, _, _)
DeliverAll(s, iface, cs) == IF cs = <<>> THEN s ELSE DeliverAll(Deliver(s, iface, Head(cs)), iface, Tail(cs))
RECURSIVE NotifyBatch(_, _)
\* batch: sequence of [iface, changes]; interfaces are distinct within a batch (it is a map in the code)
NotifyBatch(subs, batch) ==
  IF batch = <<>> THEN subs
  ELSE NotifyBatch([i \in 1..Len(subs) |-> DeliverAll(subs[i], Head(batch).iface, Head(batch).changes)], Tail(batch))

\* (a batch scripted after the end of watching is not delivered by the driver: nothing changes)
OnNotify(w, e) == IF w.ended THEN w ELSE [w EXCEPT !.subs = NotifyBatch(@, e.batch)]

\* watching ends: every channel registered so far is closed, exactly once
OnEnd(w, e) == [w EXCEPT !.ended = TRUE, !.subs = [i \in 1..Len(@) |-> [@[i] EXCEPT !.closed = TRUE]]]

\* observation: the number of buffered notifications of subscriber e.i (1-based)
OnLen(w, e) == IF e.n # Len(w.subs[e.i].buf) THEN WFlag(w, "c19-buffered-count-differs") ELSE w
\* observation: the subscriber received e.got (everything that was buffered) and then saw closed = e.closed
OnDrain(w, e) ==
  LET s == w.subs[e.i]
      w1 == IF e.got # s.buf THEN WFlag(w, "c19-received-sequence-differs") ELSE w
      w2 == IF e.closed # (s.closed /\ ~s.late) THEN WFlag(w1, "c19-closedness-differs") ELSE w1
  IN [w2 EXCEPT !.subs[e.i].buf = <<>>]
\* observation: the notify call returned without any receiver draining
OnNotifyRet(w, e) == IF e.blocked THEN WFlag(w, "c19-notify-blocked") ELSE w
OnWFail(w, e) == WFlag(w, "c19-panic-or-double-close")

\* concurrent run: each subscriber's received sequence is an in-order selection (no duplicate, no
\* reordering, nothing it did not ask for) of the changes sent on its interface; a subscriber that
\* was registered before watching began also sees every change it asked for that fitted and its
\* channel closed
RECURSIVE IsSubseq(_, _)
IsSubseq(a, b) == IF a = <<>> THEN TRUE ELSE IF b = <<>> THEN FALSE
                  ELSE IF Head(a) = Head(b) THEN IsSubseq(Tail(a), Tail(b)) ELSE IsSubseq(a, Tail(b))
Wanted(s, sent) == SelectSeq(sent[s.iface], LAMBDA c : Intersects(s.mask, c))
OnConc(w, e) ==
  IF \E k \in 1..Len(e.subs) : ~IsSubseq(e.subs[k].got, Wanted(e.subs[k], e.sent))
  THEN WFlag(w, "c19-concurrent-delivery-not-an-ordered-selection")
  ELSE IF e.waitall /\ \E k \in 1..Len(e.subs) : ~e.subs[k].closed
  THEN WFlag(w, "c19-concurrent-channel-not-closed")
  ELSE w
=============================================================================
