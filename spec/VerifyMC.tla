------------------------------ MODULE VerifyMC ------------------------------
(* C12: lemmas of the requirement Verify!Problems over every pair of RAs from *)
(* a small domain (one initial state per pair): an RA is consistent with      *)
(* itself; emptiness is symmetric; an aspect absent on either side never      *)
(* produces a report; the number of reports is bounded by the aspects that    *)
(* differ. Durations are Dur records as in the harness rendering.             *)
EXTENDS Verify, TLC

CONSTANT Small      \* TRUE: a reduced domain for the received RA (quick tier)

NoDup(x) == \A i, j \in 1..Len(x.opts) : i # j => ~(x.opts[i].k = x.opts[j].k /\ x.opts[i].k \in {"prefix", "route"} /\ x.opts[i].pfx = x.opts[j].pfx)
D(s) == [k |-> "fin", s |-> s, ms |-> 0, ns |-> 0]
PrefixPool == {<<>>, <<[k |-> "prefix", pfx |-> "p1", valid |-> D(100), pref |-> D(50)]>>,
               <<[k |-> "prefix", pfx |-> "p1", valid |-> D(200), pref |-> D(50)]>>,
               <<[k |-> "prefix", pfx |-> "p2", valid |-> D(100), pref |-> D(50)]>>}
RoutePool  == {<<>>, <<[k |-> "route", pfx |-> "r1", pref |-> "medium", life |-> D(100)]>>,
               <<[k |-> "route", pfx |-> "r1", pref |-> "medium", life |-> D(200)]>>,
               <<[k |-> "route", pfx |-> "r1", pref |-> "high", life |-> D(200)]>>}
RdnssPool  == {<<>>, <<[k |-> "rdnss", life |-> D(100), servers |-> <<"s1">>]>>, <<[k |-> "rdnss", life |-> D(100), servers |-> <<"s2">>]>>,
               <<[k |-> "rdnss", life |-> D(100), servers |-> <<"s1">>], [k |-> "rdnss", life |-> D(100), servers |-> <<"s2">>]>>}
MtuPool    == {<<>>, <<[k |-> "mtu", mtu |-> 1500]>>, <<[k |-> "mtu", mtu |-> 1280]>>}
CpPool     == {<<>>, <<[k |-> "cp", uri |-> "u1"]>>, <<[k |-> "cp", uri |-> "u2"]>>}
Pick(pool, n) == {x \in pool : TRUE}
RAs == {[hl |-> h, m |-> TRUE, o |-> FALSE, reach |-> r, retrans |-> D(0), opts |-> p \o rt \o dn \o mt \o cp] :
          h \in {64, 65}, r \in {D(0), D(1)},
          p \in {<<>>, <<[k |-> "prefix", pfx |-> "p1", valid |-> D(100), pref |-> D(50)]>>},
          rt \in {<<>>, <<[k |-> "route", pfx |-> "r1", pref |-> "medium", life |-> D(100)]>>},
          dn \in {<<>>, <<[k |-> "rdnss", life |-> D(100), servers |-> <<"s1">>]>>},
          mt \in {<<>>, <<[k |-> "mtu", mtu |-> 1500]>>}, cp \in {<<>>, <<[k |-> "cp", uri |-> "u1"]>>}}
\* the received RA ranges over the full pools (different values, repeated options, other preferences)
RBs == {[hl |-> h, m |-> mm, o |-> FALSE, reach |-> r, retrans |-> D(0), opts |-> p \o rt \o dn \o mt \o cp] :
          h \in {64, 65}, mm \in (IF Small THEN {TRUE} ELSE BOOLEAN), r \in (IF Small THEN {D(0), D(2)} ELSE {D(0), D(1), D(2)}),
          p \in (IF Small THEN {x \in PrefixPool : Len(x) = 0 \/ x[1].pfx = "p1"} ELSE PrefixPool),
          rt \in (IF Small THEN {x \in RoutePool : Len(x) = 0 \/ x[1].life = D(200)} ELSE RoutePool), dn \in RdnssPool,
          mt \in MtuPool, cp \in CpPool}

VARIABLES a, b
MInit == a \in RAs /\ b \in RBs
MSpec == MInit /\ [][UNCHANGED <<a, b>>]_<<a, b>>

Reflexive  == Problems(a, a) = <<>> /\ (NoDup(b) => Problems(b, b) = <<>>)
SymEmpty   == (Problems(a, b) = <<>>) <=> (Problems(b, a) = <<>>)
AbsentSide == (b.opts = <<>> /\ a.hl = b.hl /\ a.m = b.m /\ (a.reach = D(0) \/ b.reach = D(0) \/ a.reach = b.reach)) => Problems(a, b) = <<>>
Bounded    == Len(Problems(a, b)) <= 12
=============================================================================
