------------------------------- MODULE Verify -------------------------------
(* C12: the inconsistencies CoreRAD must report when another router's RA is   *)
(* received (RFC 4861 6.2.7 and the documented extensions), as the bag of     *)
(* <<field, details>> labels. RAs are in the abstract rendering of            *)
(* harness/common/vf_ra.go: [hl, m, o, pref, life, reach, retrans, opts] with *)
(* option records tagged by k.                                                *)
EXTENDS Integers, Sequences, FiniteSets

Opts(ra, kind) == SelectSeq(ra.opts, LAMBDA o : o.k = kind)
IsZeroDur(d) == d.k = "fin" /\ d.s = 0 /\ d.ms = 0 /\ d.ns = 0

P(f, d) == <<f, d>>
If(c, s) == IF c THEN s ELSE <<>>

Header(a, b) ==
     If(a.hl # b.hl, <<P("hop_limit", "")>>)
  \o If(a.m # b.m, <<P("managed_configuration", "")>>)
  \o If(a.o # b.o, <<P("other_configuration", "")>>)
  \o If(~IsZeroDur(a.reach) /\ ~IsZeroDur(b.reach) /\ a.reach # b.reach, <<P("reachable_time", "")>>)
  \o If(~IsZeroDur(a.retrans) /\ ~IsZeroDur(b.retrans) /\ a.retrans # b.retrans, <<P("retransmit_timer", "")>>)

\* first option of a kind on each side; reported only when both are present and the values differ
Single(a, b, kind, field, label) ==
  LET x == Opts(a, kind) y == Opts(b, kind) IN
  If(x # <<>> /\ y # <<>> /\ x[1][field] # y[1][field], <<P(label, "")>>)

RECURSIVE Flat(_)
Flat(ss) == IF ss = <<>> THEN <<>> ELSE Head(ss) \o Flat(Tail(ss))

\* every pair (ours, theirs) advertising the same prefix/length
Prefixes(a, b) ==
  LET x == Opts(a, "prefix") y == Opts(b, "prefix") IN
  Flat([i \in 1..Len(x) |-> Flat([j \in 1..Len(y) |->
         IF x[i].pfx # y[j].pfx THEN <<>>
         ELSE If(x[i].pref # y[j].pref, <<P("prefix_information_preferred_lifetime", x[i].pfx)>>)
           \o If(x[i].valid # y[j].valid, <<P("prefix_information_valid_lifetime", x[i].pfx)>>)])])

Routes(a, b) ==
  LET x == Opts(a, "route") y == Opts(b, "route") IN
  Flat([i \in 1..Len(x) |-> Flat([j \in 1..Len(y) |->
         If(x[i].pfx = y[j].pfx /\ x[i].pref = y[j].pref /\ x[i].life # y[j].life,
            <<P("route_information_lifetime", x[i].pfx)>>)])])

\* RDNSS / DNSSL: option count first; then per index lifetime and contents
Lists(a, b, kind, items, cntLabel, lifeLabel, itemsLabel) ==
  LET x == Opts(a, kind) y == Opts(b, kind) IN
  IF x = <<>> \/ y = <<>> THEN <<>>
  ELSE IF Len(x) # Len(y) THEN <<P(cntLabel, "")>>
  ELSE Flat([i \in 1..Len(x) |->
         If(x[i].life # y[i].life, <<P(lifeLabel, "")>>) \o If(x[i][items] # y[i][items], <<P(itemsLabel, "")>>)])

\* the requirement: everything above, nothing for an aspect absent on either side
Problems(a, b) ==
     Header(a, b)
  \o Single(a, b, "mtu", "mtu", "mtu")
  \o Prefixes(a, b)
  \o Routes(a, b)
  \o Lists(a, b, "rdnss", "servers", "rdnss_count", "rdnss_lifetime", "rdnss_servers")
  \o Lists(a, b, "dnssl", "names", "dnssl_count", "dnssl_lifetime", "dnssl_domain_names")
  \o Single(a, b, "cp", "uri", "captive_portal")

Count(s, x) == Cardinality({i \in 1..Len(s) : s[i] = x})
SameBag(s, t) == Len(s) = Len(t) /\ \A i \in 1..Len(s) : Count(s, s[i]) = Count(t, s[i])
=============================================================================
