------------------------------- MODULE ServReq -------------------------------
(* C20: server supervision (internal/corerad/server.go Serve, signalTask,     *)
(* terminator, readiness notification) as a deterministic monitor over        *)
(* observable events of stub tasks and of the notify socket:                  *)
(*   trun(i)        task i's Run was entered                                  *)
(*   tready(i)      task i reported ready (closed its Ready channel)          *)
(*   tfail(i)       task i returns an error now (script)                      *)
(*   tearly(i)      task i returns nil now without having been cancelled      *)
(*   tobs(i, term)  task i observed cancellation and read terminate() = term  *)
(*   tsaw(i)        task i observed cancellation (before it reads terminate())*)
(*   tgate(held)    the driver holds / lets go of the terminator's mutex      *)
(*   texit(i)       task i's Run returned                                     *)
(*   signal(term)   a signal was delivered; term = (signal # SIGHUP)          *)
(*   nready         READY=1 arrived on the notify socket                      *)
(*   sret(err)      Serve returned (err = non-nil error)                      *)
(*   quiet          driver observed that nothing more happens without input   *)
EXTENDS Integers, Sequences, FiniteSets

SInit(n) == [n |-> n, started |-> {}, ready |-> {}, exited |-> {}, failed |-> {}, obs |-> {},
             sig |-> "none", sigterm |-> FALSE, cancelled |-> FALSE, nready |-> FALSE, sret |-> "none",
             held |-> {}, tgate |-> FALSE, nonotify |-> FALSE, bad |-> {}]
SFlag(s, c) == [s EXCEPT !.bad = @ \cup {c}]
Tasks(s) == 1..s.n

OnTRun(s, e)   == [s EXCEPT !.started = @ \cup {e.i}]
OnTReady(s, e) == [s EXCEPT !.ready = @ \cup {e.i}]
OnTFail(s, e)  == [s EXCEPT !.failed = @ \cup {e.i}, !.cancelled = TRUE]
OnTEarly(s, e) == s
OnHold(s, e)    == [s EXCEPT !.held = @ \cup {e.i}]
OnRelease(s, e) == [s EXCEPT !.held = @ \ {e.i}]
OnSignal(s, e) == IF s.sig = "none" THEN [s EXCEPT !.sig = "sent", !.sigterm = e.term, !.cancelled = TRUE] ELSE s

OnTObs(s, e) ==
  LET s1 == IF ~s.cancelled THEN SFlag(s, "c20-task-cancelled-without-signal-or-failure") ELSE s
      \* when the cancellation comes from a signal (and no task has failed), the terminate/reload decision
      \* must already be visible to every task that observes it
      s2 == IF s.sig = "sent" /\ s.failed = {} /\ e.term # s.sigterm
            THEN SFlag(s1, "c20-terminate-flag-not-set-before-cancellation") ELSE s1
  IN [s2 EXCEPT !.obs = @ \cup {e.i}]

\* While the driver holds the terminator's mutex the signal kind cannot have been recorded yet, so nobody may see
\* the cancellation that the signal causes.
OnTGate(s, e) == [s EXCEPT !.tgate = e.held]
OnTSaw(s, e)  == IF s.tgate /\ s.failed = {} THEN SFlag(s, "c20-terminate-flag-not-set-before-cancellation") ELSE s

\* a scenario run under virtual time has no notify socket: announcements cannot be observed there
OnNoNotify(s, e) == [s EXCEPT !.nonotify = TRUE]

OnTExit(s, e) == LET s1 == IF s.sret # "none" THEN SFlag(s, "c20-task-returned-after-serve") ELSE s IN
                 [s1 EXCEPT !.exited = @ \cup {e.i}]

OnNReady(s, e) == LET s1 == IF s.ready # Tasks(s) THEN SFlag(s, "c20-ready-announced-before-every-task-ready") ELSE s IN
                  [s1 EXCEPT !.nready = TRUE]

OnSRet(s, e) ==
  LET s1 == IF s.exited # Tasks(s) THEN SFlag(s, "c20-serve-returned-before-every-task") ELSE s
      s2 == IF (s.failed # {}) # e.err THEN SFlag(s1, "c20-serve-result-does-not-match-task-errors") ELSE s1
      s3 == IF e.err /\ s.failed # {} /\ e.first \notin s.failed THEN SFlag(s2, "c20-serve-error-is-not-a-task-error") ELSE s2
  IN [s3 EXCEPT !.sret = IF e.err THEN "err" ELSE "nil"]

\* at a quiescent point: cancellation must have reached every running task, and once
\* every task has returned Serve must have returned
OnSQuiet(s, e) ==
  LET running == s.started \ s.exited
      s1 == IF s.cancelled /\ \E i \in running : i \notin s.obs /\ i \notin s.held
            THEN SFlag(s, "c20-cancellation-did-not-reach-every-task") ELSE s
      \* (if every task returned nil on its own nothing has been cancelled: Serve keeps waiting for a signal)
      s2 == IF s.exited = Tasks(s) /\ s.cancelled /\ s.sret = "none" THEN SFlag(s1, "c20-serve-did-not-return") ELSE s1
      s3 == IF s.ready = Tasks(s) /\ ~s.nready /\ ~s.cancelled /\ ~s.nonotify THEN SFlag(s2, "c20-ready-not-announced") ELSE s2
  IN s3

\* BuildTasks: one task per advertising / monitoring interface in configuration order, none for an
\* interface that does neither, the debug HTTP server iff an address is configured, then the link watcher
RECURSIVE IfaceTasks(_)
IfaceTasks(ifs) == IF ifs = <<>> THEN <<>>
                   ELSE (IF Head(ifs).adv THEN <<"adv">> ELSE IF Head(ifs).mon THEN <<"mon">> ELSE <<>>) \o IfaceTasks(Tail(ifs))
RECURSIVE IfaceNames(_)
IfaceNames(ifs) == IF ifs = <<>> THEN <<>>
                   ELSE (IF Head(ifs).adv \/ Head(ifs).mon THEN <<Head(ifs).name>> ELSE <<>>) \o IfaceNames(Tail(ifs))
OnBuild(s, e) ==
  LET kinds == IfaceTasks(e.ifaces) \o (IF e.debug THEN <<"http">> ELSE <<>>) \o <<"watcher">>
      names == IfaceNames(e.ifaces) \o (IF e.debug THEN <<"">> ELSE <<>>) \o <<"">>
  IN IF e.kinds # kinds \/ e.names # names THEN SFlag(s, "c20-buildtasks-wrong-task-list") ELSE s

\* the link watcher task: a watcher that is not available on this OS is skipped, any other failure is a task error
OnWTask(s, e) == IF e.err # (e.res = "other") THEN SFlag(s, "c20-link-watcher-task-result-wrong") ELSE s

\* serve(): at most 40 attempts, 3 s apart, first one immediately; a closed server is success; any error that is
\* not a network operation error ends it at once; cancellation ends it with success before the next attempt
OnRetry(s, e) ==
  LET n == Len(e.times)
      spaced == \A k \in 1..n : e.times[k] = (k - 1) * 3000
      enders == {k \in 1..Len(e.outcomes) : e.outcomes[k] # "op" /\ k <= 40}
      K == IF enders = {} THEN 0 ELSE CHOOSE k \in enders : \A j \in enders : k <= j
      endErr == K # 0 /\ e.outcomes[K] = "other"
      \* attempts that are certainly made before a cancellation at e.cancel, and those that may be
      nmin == IF e.cancel < 0 THEN 40 ELSE (e.cancel + 2999) \div 3000
      nmax == IF e.cancel < 0 THEN 40 ELSE e.cancel \div 3000 + 1
      cap(x) == IF x > 40 THEN 40 ELSE x
      okEnd == K # 0 /\ n = K /\ e.err = endErr                      \* ended by the K-th outcome
      okCancel == e.cancel >= 0 /\ n >= cap(nmin) /\ n <= cap(nmax) /\ (K = 0 \/ n < K) /\ ~e.err
      okExhaust == K = 0 /\ n = 40 /\ e.err /\ (e.cancel < 0 \/ e.cancel >= 39 * 3000)
  IN IF ~spaced THEN SFlag(s, "c20-http-retry-not-3s-apart")
     ELSE IF n > 40 THEN SFlag(s, "c20-http-more-than-40-attempts")
     ELSE IF (K # 0 /\ K <= cap(nmin)) /\ ~okEnd THEN SFlag(s, "c20-http-retry-wrong-outcome")
     ELSE IF ~(okEnd \/ okCancel \/ okExhaust) THEN SFlag(s, "c20-http-retry-wrong-outcome")
     ELSE s
\* the debug HTTP task itself (httpTask.Run on a loopback address, real time): e.busy = how long the driver kept the
\* address occupied from the start (0 = free), e.cancel = when the task was cancelled, e.ready = when it reported ready
\* (-1 never), e.ret = when Run returned (-1 = not within the deadline), e.served = a request made after readiness was
\* answered by the configured handler, e.alive = the configured handler still answered after Run had returned.
\* Attempts are made at 0, 3 s, 6 s, ...; the one that succeeds is the first after e.busy.
HttpSlack == 2500
OnHttp(s, e) ==
  LET Tmin == ((e.busy + 2999) \div 3000) * 3000           \* earliest attempt that can succeed
      Tmax == IF e.busy = 0 THEN 0 ELSE (e.busy \div 3000 + 1) * 3000   \* the attempt that must (an attempt at the very
                                                                       \* instant the address is let go may go either way)
      \* all 40 attempts (the last one at 117 s) found the address occupied: the task ends with an error, on its own
      exh == e.err /\ e.ready < 0 /\ e.busy >= 117000 /\ e.ret >= 117000 /\ e.cancel >= 117000
      f1 == IF e.ready >= 0 /\ e.ready < e.busy THEN {"c20-http-ready-while-address-unavailable"} ELSE {}
      f2 == IF e.busy > 0 /\ e.ready >= 0 /\ e.ready < 3000 THEN {"c20-http-listen-retried-before-3s"} ELSE {}
      f3 == IF e.cancel > Tmax + HttpSlack /\ (e.ready < 0 \/ e.ready > Tmax + HttpSlack) /\ ~exh THEN {"c20-http-not-ready-although-address-free"} ELSE {}
      f4 == IF e.ready >= 0 /\ e.ready < e.cancel /\ ~e.served THEN {"c20-http-ready-but-not-serving-the-handler"} ELSE {}
      f5 == IF e.cancel < Tmin /\ e.ready >= 0 THEN {"c20-http-started-after-cancellation"} ELSE {}
      f6 == IF e.ret < 0 \/ (e.ret > e.cancel + HttpSlack /\ ~exh) THEN {"c20-http-stop-not-prompt"} ELSE {}
      f7 == IF e.ret >= 0 /\ e.err /\ ~exh THEN {"c20-http-stop-reported-an-error"} ELSE {}
      f8 == IF e.alive THEN {"c20-http-still-serving-after-return"} ELSE {}
      f9 == IF e.ret >= 0 /\ e.ret < e.cancel /\ ~exh THEN {"c20-http-returned-before-cancellation"} ELSE {}
  IN [s EXCEPT !.bad = @ \cup f1 \cup f2 \cup f3 \cup f4 \cup f5 \cup f6 \cup f7 \cup f8 \cup f9]
=============================================================================
