------------------------------- MODULE AdvConf -------------------------------
(***************************************************************************)
(* CONFORMANCE of recorded executions with the implementation-shaped model  *)
(* Advertiser.tla (binding of the model itself to the code).                *)
(* trace.ndjson holds many single-session scenarios in the AdvReq event     *)
(* vocabulary. Every scenario is an initial state (l = index of its reset   *)
(* line); TLC searches for a behaviour of the model that explains the       *)
(* logged events:                                                           *)
(*  - driver inputs (arrive, cancel, link, flip, hold, release, query,      *)
(*    quiet, advance) are bound to the matching environment action;         *)
(*  - an internal action of the model that emits observable events (its     *)
(*    monitor state rq changes) must consume the next 1..5 logged events    *)
(*    and reach the same monitor state as those events do; internal steps   *)
(*    that emit nothing are silent;                                         *)
(*  - time passes only at quiescence, to the next internal deadline or the  *)
(*    time of the next logged event, whichever comes first;                 *)
(*  - unlogged choices (random delays, periodic waits, select order) are    *)
(*    left to TLC and resolved by later events.                             *)
(* A scenario is explained when its last line is consumed: its id is        *)
(* printed once. Scenarios never printed are MODEL-DEVIATIONs.              *)
(***************************************************************************)
EXTENDS Advertiser, Json

Trace == ndJsonDeserialize("trace.ndjson")
VARIABLES l, sid, st0
cvars == <<vars, l, sid, st0>>

Starts == {i \in 1..Len(Trace) : Trace[i].ev = "reset"}
More == l > st0 /\ l <= Len(Trace) /\ Trace[l].ev # "reset"
Ev == Trace[l]

StepRq(mm, e) ==
  CASE e.ev = "dial"    -> OnDial(mm, e)    [] e.ev = "done"    -> OnDone(mm, e)
    [] e.ev = "rcall"   -> OnRCall(mm, e)   [] e.ev = "in"      -> OnIn(mm, e)
    [] e.ev = "fwd"     -> OnFwd(mm, e)     [] e.ev = "wcall"   -> OnWCall(mm, e)
    [] e.ev = "wret"    -> OnWRet(mm, e)    [] e.ev = "cnt"     -> OnCnt(mm, e)
    [] e.ev = "hook"    -> OnHook(mm, e)    [] e.ev = "mislog"  -> OnMisLog(mm, e)
    [] e.ev = "ret"     -> OnRet(mm, e)     [] e.ev = "qcall"   -> OnQueryCall(mm, e)
    [] e.ev = "scrape"  -> OnScrape(mm, e)  [] e.ev = "api"     -> OnApi(mm, e)
    [] OTHER            -> mm
RECURSIVE ApplyN(_, _, _)
ApplyN(r, i, k) == IF k = 0 THEN r ELSE ApplyN(StepRq(r, Trace[i]), i + 1, k - 1)
InScenario(i, k) == i + k - 1 <= Len(Trace) /\ \A j \in i..(i + k - 1) : Trace[j].ev # "reset"

\* the model's own session-initial state, with the forwarding flag the scenario started with
CInit ==
  /\ l \in Starts /\ st0 = l
  /\ sid = Trace[l].id
  /\ now = 0 /\ parent = "live" /\ term = FALSE /\ conn = 1 /\ wcl = FALSE /\ egc = FALSE /\ egerr = NONE
  /\ main = "init" /\ ret = NONE
  /\ sch = [pc |-> "off", ctxc |-> FALSE, last |-> 0, err |-> NONE]
  /\ stopped = FALSE /\ tasks = {} /\ nextId = 1 /\ wk = <<>>
  /\ mc = [pc |-> "off", i |-> 0, timer |-> 0]
  /\ ls = [pc |-> "off", i |-> 0, timer |-> 0, msg |-> NONE]
  /\ lsown = FALSE /\ intr = "off" /\ dl = FALSE /\ lw = "off" /\ linkEv = FALSE
  /\ ipc = <<>> /\ inbox = <<>> /\ fwd = Trace[l].fwd /\ held = {}
  /\ rq = ReqInit([unicast |-> UnicastOnly, cfglife |-> CfgLife, mon |-> MonitorMode, strict |-> Trace[l].strict,
                   quiet |-> Trace[l].quiet, miniv |-> Trace[l].min, maxiv |-> Trace[l].max])
  /\ nIn = 0 /\ nFlip = 0 /\ nHold = 0 /\ nQuery = 0

\* the reset line itself is consumed first
C_Begin == /\ l = st0
           /\ l' = l + 1 /\ UNCHANGED <<vars, sid, st0>>

\* unlogged random delays are resolved eagerly: a scheduled transmission is only plausible if the log shows a
\* transmission to that destination at that instant within the next lines, or the session is stopped / ends first
Window == 120
Plausible(tk) == tk.dst = ALLNODES \/ \E j \in l..(l + Window) :      \* (multicast delays are deterministic)
                    /\ j <= Len(Trace) /\ \A q \in l..j : Trace[q].ev # "reset"
                    /\ \/ Trace[j].ev = "wcall" /\ Trace[j].dst = tk.dst /\ Trace[j].t = tk.at
                       \/ Trace[j].ev \in {"cancel", "ret", "link"} /\ Trace[j].t <= tk.at
                       \/ Trace[j].ev = "in" /\ Trace[j].kind \in {"readerr", "timeout"} /\ Trace[j].t <= tk.at
                       \/ Trace[j].ev = "wret" /\ ~Trace[j].ok /\ Trace[j].t <= tk.at
PlausibleTasks == \A tk \in tasks : Plausible(tk)

\* an internal step of the model: silent, or explained by the next logged events
C_Internal ==
  /\ l > st0
  /\ Internal
  /\ IF rq' = rq THEN l' = l
     ELSE \E k \in 1..6 : InScenario(l, k) /\ rq' = ApplyN(rq, l, k) /\ l' = l + k
  /\ sid' = sid /\ st0' = st0
  /\ PlausibleTasks'

MsgOf(e) == IF e.kind \in {"rs", "ra", "ns", "na"} /\ e.hl # 255 THEN [kind |-> "badhl", src |-> e.src]
            ELSE IF e.kind = "rs" THEN [kind |-> "rs", src |-> e.src]
            ELSE IF e.kind \in {"ns", "na"} THEN [kind |-> "other", src |-> e.src]
            ELSE IF e.kind = "timeout" THEN [kind |-> "timeout", src |-> NONE]
            ELSE IF e.kind \in {"readerr", "readerrsys"} THEN [kind |-> e.kind, src |-> NONE]
            ELSE IF e.kind = "ra" THEN [kind |-> IF e.tag = "diff" THEN "radiff" ELSE "rasame", src |-> NONE]
            ELSE [kind |-> "other", src |-> NONE]

C_Arrive == /\ More /\ Ev.ev = "arrive" /\ Ev.t = now /\ main = "egwait"
            /\ inbox' = Append(inbox, MsgOf(Ev)) /\ l' = l + 1
            /\ UNCHANGED <<now, parent, term, conn, egc, egerr, main, ret, sch, stopped, tasks, nextId, wk, mc, ls, lsown, intr,
                           dl, lw, linkEv, wcl, ipc, fwd, held, rq, nIn, nFlip, nHold, nQuery, sid, st0>>
C_Cancel == /\ More /\ Ev.ev = "cancel" /\ Ev.t = now /\ Quiescent /\ parent = "live"
            /\ parent' = "canceled" /\ term' = Ev.term /\ rq' = OnCancel(rq, Ev) /\ l' = l + 1
            /\ UNCHANGED <<now, conn, egc, egerr, main, ret, sch, stopped, tasks, nextId, wk, mc, ls, lsown, intr, dl, lw, linkEv, wcl,
                           ipc, inbox, fwd, held, nIn, nFlip, nHold, nQuery, sid, st0>>
C_Link == /\ More /\ Ev.ev = "link" /\ Ev.t = now /\ Quiescent
          /\ linkEv' = TRUE /\ rq' = OnLink(rq, Ev) /\ l' = l + 1
          /\ UNCHANGED <<now, parent, term, conn, egc, egerr, main, ret, sch, stopped, tasks, nextId, wk, mc, ls, lsown, intr, dl, lw,
                         wcl, ipc, inbox, fwd, held, nIn, nFlip, nHold, nQuery, sid, st0>>
C_WClose == /\ More /\ Ev.ev = "wclose" /\ Ev.t = now /\ Quiescent
            /\ wcl' = TRUE /\ l' = l + 1
            /\ UNCHANGED <<now, parent, term, conn, egc, egerr, main, ret, sch, stopped, tasks, nextId, wk, mc, ls, lsown, intr, dl, lw,
                           linkEv, ipc, inbox, fwd, held, rq, nIn, nFlip, nHold, nQuery, sid, st0>>
C_Flip == /\ More /\ Ev.ev = "flip" /\ Ev.t = now
          /\ fwd' = Ev.val /\ l' = l + 1
          /\ UNCHANGED <<now, parent, term, conn, egc, egerr, main, ret, sch, stopped, tasks, nextId, wk, mc, ls, lsown, intr, dl, lw,
                         linkEv, wcl, ipc, inbox, held, rq, nIn, nFlip, nHold, nQuery, sid, st0>>
C_Hold == /\ More /\ Ev.ev = "hold" /\ Ev.t = now
          /\ held' = held \cup {Ev.dst} /\ rq' = OnHold(rq, Ev) /\ l' = l + 1
          /\ UNCHANGED <<now, parent, term, conn, egc, egerr, main, ret, sch, stopped, tasks, nextId, wk, mc, ls, lsown, intr, dl, lw,
                         linkEv, wcl, ipc, inbox, fwd, nIn, nFlip, nHold, nQuery, sid, st0>>
C_Release == /\ More /\ Ev.ev = "release" /\ Ev.t = now
             /\ held' = held \ {Ev.dst} /\ rq' = OnRelease(rq, Ev) /\ l' = l + 1
             /\ UNCHANGED <<now, parent, term, conn, egc, egerr, main, ret, sch, stopped, tasks, nextId, wk, mc, ls, lsown, intr, dl,
                            lw, linkEv, wcl, ipc, inbox, fwd, nIn, nFlip, nHold, nQuery, sid, st0>>
\* a scrape or API request made by the driver at a quiescent point: qcall, fwd, result
C_Query == /\ More /\ Ev.ev = "qcall" /\ Ev.t = now /\ Quiescent /\ InScenario(l, 3)
           /\ Trace[l+1].ev = "fwd" /\ Trace[l+1].val = fwd /\ Trace[l+2].ev \in {"scrape", "api"}
           /\ rq' = ApplyN(rq, l, 3) /\ l' = l + 3
           /\ UNCHANGED <<now, parent, term, conn, egc, egerr, main, ret, sch, stopped, tasks, nextId, wk, mc, ls, lsown, intr, dl, lw,
                          linkEv, wcl, ipc, inbox, fwd, held, nIn, nFlip, nHold, nQuery, sid, st0>>
\* quiescence observed / time about to pass: only when the model is quiescent too
C_Obs == /\ More /\ Ev.ev \in {"quiet", "advance"} /\ Ev.t = now /\ Quiescent
         /\ rq' = (IF Ev.ev = "quiet" THEN OnQuiet(rq, Ev) ELSE OnAdvance(rq, Ev)) /\ l' = l + 1
         /\ UNCHANGED <<now, parent, term, conn, egc, egerr, main, ret, sch, stopped, tasks, nextId, wk, mc, ls, lsown, intr, dl, lw,
                        linkEv, wcl, ipc, inbox, fwd, held, nIn, nFlip, nHold, nQuery, sid, st0>>

TimerDeadlines == {tk.at : tk \in tasks} \cup (IF mc.pc = "wait" THEN {mc.timer} ELSE {}) \cup (IF ls.pc = "backoff" THEN {ls.timer} ELSE {})
Future(S) == {x \in S : x > now}
MinOf(S) == CHOOSE x \in S : \A y \in S : x <= y
\* virtual time advances, at quiescence, to the next internal deadline or the next logged instant
C_Time == /\ More /\ Quiescent
          /\ LET cand == Future(TimerDeadlines \cup {Ev.t}) IN
             /\ cand # {} /\ Ev.t > now
             /\ now' = MinOf(cand)
          /\ UNCHANGED <<parent, term, conn, egc, egerr, main, ret, sch, stopped, tasks, nextId, wk, mc, ls, lsown, intr, dl, lw,
                         linkEv, wcl, ipc, inbox, fwd, held, rq, nIn, nFlip, nHold, nQuery, l, sid, st0>>

\* after Run has returned only the driver's own events remain (anything the code did would be a monitor violation)
C_After == /\ More /\ main = "ret" /\ Ev.ev \in {"arrive", "quiet", "advance", "flip", "cancel", "link", "wclose", "hold", "release", "qcall", "scrape", "api"}
           /\ l' = l + 1
           /\ now' = (IF Ev.t > now THEN Ev.t ELSE now)
           /\ UNCHANGED <<parent, term, conn, egc, egerr, main, ret, sch, stopped, tasks, nextId, wk, mc, ls, lsown, intr, dl, lw,
                          linkEv, wcl, ipc, inbox, fwd, held, rq, nIn, nFlip, nHold, nQuery, sid, st0>>
C_AfterFwd == /\ More /\ main = "ret" /\ Ev.ev = "fwd" /\ l > st0 + 1 /\ Trace[l-1].ev = "qcall"
              /\ l' = l + 1
              /\ UNCHANGED <<now, parent, term, conn, egc, egerr, main, ret, sch, stopped, tasks, nextId, wk, mc, ls, lsown, intr, dl, lw,
                             linkEv, wcl, ipc, inbox, fwd, held, rq, nIn, nFlip, nHold, nQuery, sid, st0>>

CNext == C_After \/ C_AfterFwd \/ C_Begin \/ C_Internal \/ C_Arrive \/ C_Cancel \/ C_Link \/ C_WClose \/ C_Flip \/ C_Hold \/ C_Release \/ C_Query \/ C_Obs \/ C_Time
CSpec == CInit /\ [][CNext]_cvars

\* the scenario's events have all been consumed
Done == l > st0 /\ (l > Len(Trace) \/ Trace[l].ev = "reset")
Explained == Done => PrintT(ToJson([explained |-> sid]))
\* longest explained prefix, per scenario (for the report of a deviation)
CONSTANT DebugK
Reach == l <= DebugK        \* debugging aid: its violation shows that line DebugK + 1 is reachable
=============================================================================
