----------------------------- MODULE ConfigTrace -----------------------------
(* C02 validation: for each recorded (document, Parse result) the real       *)
(* parser must accept exactly the documents Accept admits and elaborate them  *)
(* to Elab(doc). Arbitrary byte inputs only need to not panic.                *)
EXTENDS Config, TLC, Json

Trace == ndJsonDeserialize("trace.ndjson")
VARIABLES l
TInit == l = 1
Verdict(e) ==
  IF e.out.panic THEN "c02-parse-panicked"
  ELSE IF e.kind = "raw" THEN "ok"
  ELSE IF e.out.accepted # Accept(e.doc) THEN (IF e.out.accepted THEN "c02-accepted-a-document-the-constraints-reject"
                                                ELSE "c02-rejected-a-document-the-constraints-admit")
  ELSE IF e.out.accepted /\ e.out.elab # Elab(e.doc) THEN "c02-defaults-or-values-differ"
  ELSE "ok"
TNext == /\ l <= Len(Trace)
         /\ LET v == Verdict(Trace[l]) IN
            IF v = "ok" THEN TRUE ELSE PrintT(ToJson([viol |-> v, id |-> Trace[l].id, line |-> l]))
         /\ l' = l + 1
TSpec == TInit /\ [][TNext]_l
Consumed == TLCGet("stats").diameter - 1 = Len(Trace)
=============================================================================
