------------------------------ MODULE WatchTrace ------------------------------
EXTENDS WatchReq, TLC, Json
Trace == ndJsonDeserialize("trace.ndjson")
VARIABLES l, w, sid
tv == <<l, w, sid>>
Step(ww, e) == CASE e.ev = "sub" -> OnSubscribe(ww, e) [] e.ev = "notify" -> OnNotify(ww, e) [] e.ev = "notifyret" -> OnNotifyRet(ww, e)
                 [] e.ev = "len" -> OnLen(ww, e) [] e.ev = "drain" -> OnDrain(ww, e) [] e.ev = "end" -> OnEnd(ww, e)
                 [] e.ev = "panic" -> OnWFail(ww, e) [] e.ev = "conc" -> OnConc(ww, e) [] OTHER -> ww
TInit == l = 1 /\ w = WInit /\ sid = ""
TNext == /\ l <= Len(Trace)
         /\ LET e == Trace[l] IN
            IF e.ev = "reset" THEN w' = WInit /\ sid' = e.id
            ELSE LET w2 == Step(w, e) IN
                 /\ w' = w2 /\ sid' = sid
                 /\ \A c \in w2.bad \ w.bad : PrintT(ToJson([viol |-> c, id |-> sid, line |-> l]))
         /\ l' = l + 1
TSpec == TInit /\ [][TNext]_tv
Consumed == TLCGet("stats").diameter - 1 = Len(Trace)
=============================================================================
