------------------------------ MODULE WaitTrace ------------------------------
(* C05 function level: every wait the real multicastDelay returned for a      *)
(* recorded (index, min, max) must be an allowed wait; choosing never panics. *)
EXTENDS Integers, Sequences, TLC, Json, Waits

Trace == ndJsonDeserialize("trace.ndjson")
VARIABLES l
TInit == l = 1
Ok(e) == /\ ~e.out.panic
         /\ Len(e.out.waits) > 0
         /\ \A k \in 1..Len(e.out.waits) : AllowedWait(e.in.i, e.in.min, e.in.max, e.out.waits[k])
TNext == /\ l <= Len(Trace)
         /\ IF Ok(Trace[l]) THEN TRUE ELSE PrintT(ToJson([viol |-> "c05-wait", id |-> Trace[l].id, line |-> l]))
         /\ l' = l + 1
TSpec == TInit /\ [][TNext]_l
Consumed == TLCGet("stats").diameter - 1 = Len(Trace)
=============================================================================
