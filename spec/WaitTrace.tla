------------------------------ MODULE WaitTrace ------------------------------
(* C05 function level: every wait the real multicastDelay returned for a      *)
(* recorded (index, min, max) must be an allowed wait; choosing never panics. *)
EXTENDS Integers, Sequences, TLC, Json, Waits

Trace == ndJsonDeserialize("trace.ndjson")
VARIABLES l
TInit == l = 1
e_kind(e) == IF "kind" \in DOMAIN e THEN e.kind ELSE "c05"
Ok(e) == /\ ~e.out.panic
         /\ Len(e.out.waits) > 0
         /\ \A k \in 1..Len(e.out.waits) : AllowedWait(e.in.i, e.in.min, e.in.max, e.out.waits[k])
\* loop level with a slow consumer: after hand-over k the loop chooses wait w (index k) and offers the next request at
\* T_k + w; the consumer takes it when it is ready itself (stall after the previous hand-over), so the gap between two
\* hand-overs is max(w, stall) for an allowed w - never less, whatever the previous hand-over cost
LowestAllowed(i, mn) == IF i < InitCount /\ RoundSec(mn) > InitCap THEN InitCap ELSE RoundSec(mn)
LoopOk(e) == /\ ~e.out.panic
             /\ Len(e.out.times) = e.in.n
             /\ \A k \in 1..(Len(e.out.times) - 1) :
                  LET gap == e.out.times[k + 1] - e.out.times[k]
                      key == ToString(k)
                      stall == IF key \in DOMAIN e.in.stalls THEN e.in.stalls[key] ELSE 0 IN
                  /\ gap >= stall
                  /\ \/ AllowedWait(k - 1, e.in.min, e.in.max, gap)
                     \/ (gap = stall /\ stall >= LowestAllowed(k - 1, e.in.min))
TNext == /\ l <= Len(Trace)
         /\ IF (IF e_kind(Trace[l]) = "c05loop" THEN LoopOk(Trace[l]) ELSE Ok(Trace[l])) THEN TRUE ELSE PrintT(ToJson([viol |-> "c05-wait", id |-> Trace[l].id, line |-> l]))
         /\ l' = l + 1
TSpec == TInit /\ [][TNext]_l
Consumed == TLCGet("stats").diameter - 1 = Len(Trace)
=============================================================================
