---------------------------- MODULE Advertiser ----------------------------
(* Generated from Advertiser.tla.in by spec/unch.py (only UNCHANGED clauses are expanded). *)
(***************************************************************************)
(* Implementation-shaped model of the dial sessions (up to MaxSessions, the  *)
(* re-dial itself always succeeding: dial failures are Dialer.tla's matter) *)
(* of ONE advertising interface of CoreRAD (internal/corerad/advertise.go, listener.go,       *)
(* the schedgroup monitor, errgroup), at goroutine-step granularity, with  *)
(* discrete urgent time: `now` advances only when no internal step is      *)
(* enabled (exactly the execution model of a testing/synctest bubble).     *)
(*                                                                         *)
(* One action per critical section / step between two blocking operations: *)
(*   main      M_InitSend, M_EgDone, M_ShutCall, M_ShutRet ; D_Redial (the  *)
(*             Dialer re-establishes the task after a recoverable error)   *)
(*   scheduler S_RecvErr, S_CtxDone, S_RecvIP, S_Stopped ;                 *)
(*             T_Fire (a time.AfterFunc timer fires into its goroutine)    *)
(*   workers   W_Start, W_Build, W_WCall, W_WRet, W_Count, W_ErrGiveUp     *)
(*   multicast MC_Check, MC_Send, MC_Wake                                  *)
(*   listener  L_Top, L_Read, L_Backoff, L_Handle, L_Push, L_ErrCancel,    *)
(*             L_ErrDone, L_ExitWait ; I_Fire (interrupt goroutine)        *)
(*   watcher   LW_Step                                                     *)
(*   environment E_Arrive, E_Cancel, E_Link, E_Flip, E_Hold, E_Release,    *)
(*             Tick                                                        *)
(* Every step that crosses the Conn / State / metrics boundary feeds the   *)
(* corresponding observable event to the requirement monitor AdvReq, whose *)
(* state `rq` is part of the model state: INVARIANT Req is "Impl => Req".  *)
(* The text follows the code AFTER the fix: commits recorded in            *)
(* known_findings.json (transmit-time rate limiting with coalescing, the   *)
(* stop protocol for send workers, one timer per transmission instead of   *)
(* schedgroup, context-aware channel sends, listener                       *)
(* cancel-before-wait, invalid messages not consuming retries).            *)
(***************************************************************************)
EXTENDS Integers, Sequences, FiniteSets, TLC

CONSTANTS
  MinDelay,      \* MIN_DELAY_BETWEEN_RAS in ticks
  MaxRADelay,    \* MAX_RA_DELAY_TIME in ticks: unicast delay drawn from 0..MaxRADelay-1
  InitCap,       \* MAX_INITIAL_RTR_ADVERT_INTERVAL
  InitCount,     \* MAX_INITIAL_RTR_ADVERTISEMENTS
  MinIv, MaxIv,  \* Min/MaxRtrAdvInterval (whole ticks)
  ChanCap,       \* capacity of ipC
  Retries,       \* receive retry budget
  BackoffUnit,   \* 50ms in ticks (may be 0 on a coarse grid)
  UnicastOnly, CfgLife,
  MonitorMode,   \* TRUE: the task is a Monitor (monitor.go): listener + link watcher only, nothing is ever transmitted
  Hosts,         \* solicitation sources other than ::
  Kinds,         \* extra message kinds offered by the environment
  MaxIn, MaxT, MaxFlips, MaxHolds,
  WriteFaults, LinkFaults, AllowCancel, MaxQueries,
  FwdFaults,     \* the forwarding-state read of an RA generation may fail (classes other / sys)
  MaxSessions,   \* connections the Dialer may open one after the other (1 = no re-dial in the model)
  Sec            \* one second in ticks (for the monitor's rounding; 1 = waits are whole ticks)

NONE == "none"

\* the requirement monitor (shared with trace validation); defines ALLNODES, UNSPEC
INSTANCE AdvReq

VARIABLES
  now,           \* virtual clock
  parent, term,  \* Run's context; terminate() value
  egc, egerr,    \* errgroup context cancelled; first error
  main, ret,     \* main goroutine pc; Run's result class
  sch,           \* scheduler: [pc, ctxc, last, err]
  stopped,       \* stop flag guarded by the scheduler's mutex
  tasks, nextId, \* pending timers; task ids
  wk,            \* send workers: id -> [pc, dst, life]
  mc,            \* multicast loop: [pc, i, timer]
  ls, lsown,     \* listener: [pc, i, timer, msg]; Listen's own cancel called
  intr, dl,      \* interrupt goroutine; read deadline forced
  lw, linkEv,    \* link watcher goroutine; pending link event
  wcl,           \* the link-state watcher has ended: the subscription channel is closed (C19)
  ipc, inbox,    \* ipC channel; socket receive queue
  fwd,           \* kernel forwarding flag
  held,          \* destinations whose WriteTo is held open by the driver
  rq,            \* requirement monitor state (AdvReq)
  conn,          \* id of the current connection (session number)
  nIn, nFlip, nHold, nQuery

vars == <<now, parent, term, egc, egerr, main, ret, sch, stopped, tasks, nextId, wk, mc,
          ls, lsown, intr, dl, lw, linkEv, wcl, ipc, inbox, fwd, held, rq, conn, nIn, nFlip, nHold, nQuery>>

IsMc(d) == d = ALLNODES
EgC  == egc \/ parent = "canceled"     \* errgroup ctx is a child of Run's ctx
SchC == sch.ctxc \/ EgC                \* schedule()'s own ctx
LsC  == lsown \/ EgC                   \* Listen()'s own ctx

Cap(i, d) == IF i < InitCount /\ d > InitCap THEN InitCap ELSE d
\* the loop waits a whole number of seconds (Sec ticks) between MinIv and MaxIv
Waits(i) == {Cap(i, d) : d \in {x \in MinIv..MaxIv : (x - MinIv) % Sec = 0}}

Life == IF fwd THEN CfgLife ELSE 0
\* error classes the Dialer re-establishes the task for (link change, non-permission system call errors)
Recoverable(e) == e \in {"linkchange", "readerrsys", "txerrsys"}

\* observable events, in the vocabulary of AdvReq (k = 1: one session)
EvT         == [t |-> now]
EvFwd       == [val |-> fwd, ok |-> TRUE, cls |-> "", t |-> now]
EvFwdErr(c) == [val |-> FALSE, ok |-> FALSE, cls |-> c, t |-> now]
FwdRes      == IF FwdFaults THEN {"ok", "other", "sys"} ELSE {"ok"}
EvWC(d, l)  == [k |-> conn, dst |-> d, mc |-> IsMc(d), type |-> "ra", life |-> l, body |-> "b", t |-> now]
EvWRc(d, res) == [k |-> conn, dst |-> d, mc |-> IsMc(d), ok |-> (res = "ok"), cls |-> IF res = "ok" THEN "" ELSE res, t |-> now]
EvWR(d, ok) == EvWRc(d, IF ok THEN "ok" ELSE "other")
EvInC(kind, cls, src, hl) == [k |-> conn, kind |-> kind, cls |-> cls, src |-> src, hl |-> hl, t |-> now]
EvIn(kind, src, hl) == EvInC(kind, "", src, hl)
EvCnt(c)    == [c |-> c, v |-> 1000, t |-> now]
EvRC        == [k |-> conn, t |-> now]
EvK         == [k |-> conn, t |-> now]
\* buildRA: the forwarding read, plus the interface_not_forwarding log line when the lifetime is overridden
Gen(r)      == LET r1 == OnFwd(r, EvFwd) IN IF ~fwd /\ CfgLife > 0 THEN OnMisLog(r1, EvT) ELSE r1

Init ==
  /\ now = 0 /\ parent = "live" /\ term = FALSE /\ egc = FALSE /\ egerr = NONE
  /\ main = "init" /\ ret = NONE
  /\ sch = [pc |-> "off", ctxc |-> FALSE, last |-> 0, err |-> NONE]
  /\ stopped = FALSE
  /\ tasks = {} /\ nextId = 1 /\ wk = <<>>
  /\ mc = [pc |-> "off", i |-> 0, timer |-> 0]
  /\ ls = [pc |-> "off", i |-> 0, timer |-> 0, msg |-> NONE]
  /\ lsown = FALSE /\ intr = "off" /\ dl = FALSE /\ lw = "off" /\ linkEv = FALSE
  /\ ipc = <<>> /\ inbox = <<>> /\ fwd \in BOOLEAN /\ held = {}
  /\ rq = ReqInit([unicast |-> UnicastOnly, cfglife |-> CfgLife, mon |-> MonitorMode, strict |-> MinIv > MaxT,
                  quiet |-> (MaxIn = 0 /\ MinIv >= 2 * MinDelay), miniv |-> MinIv, maxiv |-> MaxIv])
  /\ conn = 1 /\ wcl = FALSE
  /\ nIn = 0 /\ nFlip = 0 /\ nHold = 0 /\ nQuery = 0

\* errgroup: first error wins and cancels the group context
Fail(e) == /\ egerr' = IF egerr = NONE THEN e ELSE egerr
           /\ egc' = TRUE

---------------------------------------------------------------------------
(* main goroutine: Run -> Prepare -> initial send -> advertise -> eg.Wait -> shutdown *)
M_InitSend ==
  /\ main = "init"
  /\ \E res \in (IF WriteFaults /\ ~UnicastOnly /\ ~MonitorMode THEN {"ok", "other", "sys"} ELSE {"ok"})
                \cup (IF FwdFaults /\ ~UnicastOnly /\ ~MonitorMode THEN {"fwdother", "fwdsys"} ELSE {}) :
       /\ rq' = LET r1 == OnDial(rq, [k |-> conn, res |-> "ok", t |-> now]) IN
                IF UnicastOnly \/ MonitorMode THEN r1  \* send() skips multicast before building anything; a monitor sends nothing
                ELSE IF res \in {"fwdother", "fwdsys"} THEN OnFwd(r1, EvFwdErr(IF res = "fwdsys" THEN "sys" ELSE "other"))
                ELSE OnWRet(OnWCall(Gen(r1), EvWC(ALLNODES, Life)), EvWRc(ALLNODES, res))
       /\ main' = "egwait"
       /\ IF res = "ok"
          THEN /\ sch' = [sch EXCEPT !.pc = IF MonitorMode THEN "done" ELSE "select", !.last = now]
               /\ mc' = [mc EXCEPT !.pc = IF UnicastOnly \/ MonitorMode THEN "done" ELSE "check"]
               /\ ls' = [ls EXCEPT !.pc = "top"] /\ intr' = "wait" /\ lw' = "wait"
               /\ UNCHANGED <<egc, egerr>>
          ELSE \* the initial RA could not be sent: fn returns that error before any goroutine is started
               /\ sch' = [sch EXCEPT !.pc = "done"] /\ mc' = [mc EXCEPT !.pc = "done"]
               /\ ls' = [ls EXCEPT !.pc = "done"] /\ lw' = "done" /\ intr' = "done"
               /\ Fail(IF res \in {"sys", "fwdsys"} THEN "txerrsys" ELSE "txerr")
  /\ UNCHANGED <<now, parent, term, ret, stopped, tasks, nextId, wk, lsown, dl, linkEv, wcl, ipc, inbox, fwd, held, conn, nIn, nFlip, nHold, nQuery>>

GroupDone == sch.pc = "done" /\ mc.pc = "done" /\ ls.pc = "done" /\ lw = "done"

M_EgDone ==
  /\ main = "egwait" /\ GroupDone
  /\ IF egerr # NONE
     THEN \* fn returns the error; Dial runs the cleanup closure, then init() classifies the error
          IF Recoverable(egerr)
          THEN /\ main' = "redial" /\ ret' = ret /\ rq' = OnDone(rq, EvK)
          ELSE /\ main' = "ret" /\ ret' = egerr
               /\ rq' = OnRet(OnDone(rq, EvK), [res |-> IF Recoverable(egerr) /\ parent = "canceled" THEN "nil" ELSE "err", t |-> now])
     ELSE /\ main' = "shutdown" /\ ret' = ret /\ rq' = rq
  /\ UNCHANGED <<now, parent, term, egc, egerr, sch, stopped, tasks, nextId, wk, mc, ls, lsown, intr, dl, lw, linkEv, wcl, ipc, inbox, fwd, held, conn, nIn, nFlip, nHold, nQuery>>

\* Dialer.init after a recoverable error: first retry at once; select { <-ctx.Done() ; <-time.After(0) } may go either
\* way when a stop request is already pending. A successful re-dial starts a fresh session on a new connection.
D_Redial ==
  /\ main = "redial"
  /\ \/ /\ parent = "canceled"
        /\ main' = "ret" /\ ret' = "nil" /\ rq' = OnRet(rq, [res |-> "nil", t |-> now])
        /\ UNCHANGED <<egc, egerr, sch, stopped, tasks, wk, mc, ls, lsown, intr, dl, lw, linkEv, ipc, inbox, conn>>
     \/ \* every one of the 50 attempts fails (an environment choice; Dialer.tla has the loop itself): "timed out"
        /\ main' = "ret" /\ ret' = "err"
        /\ rq' = OnRet(OnDial(rq, [k |-> 0, res |-> "lnr", t |-> now]), [res |-> "err", t |-> now])
        /\ UNCHANGED <<egc, egerr, sch, stopped, tasks, wk, mc, ls, lsown, intr, dl, lw, linkEv, ipc, inbox, conn>>
     \/ /\ conn < MaxSessions
        /\ main' = "init" /\ conn' = conn + 1 /\ ret' = ret /\ rq' = rq
        /\ egc' = FALSE /\ egerr' = NONE
        /\ sch' = [pc |-> "off", ctxc |-> FALSE, last |-> 0, err |-> NONE]
        /\ stopped' = FALSE /\ tasks' = {} /\ wk' = <<>>
        /\ mc' = [pc |-> "off", i |-> 0, timer |-> 0]
        /\ ls' = [pc |-> "off", i |-> 0, timer |-> 0, msg |-> NONE]
        /\ lsown' = FALSE /\ intr' = "off" /\ dl' = FALSE /\ lw' = "off" /\ linkEv' = FALSE
        /\ ipc' = <<>> /\ inbox' = <<>>
  /\ UNCHANGED <<now, parent, term, nextId, wcl, fwd, held, nIn, nFlip, nHold, nQuery>>

\* shutdown(): terminate() false, or unicast-only (send() skips multicast) => nothing
M_ShutCall ==
  /\ main = "shutdown"
  /\ IF term /\ ~UnicastOnly /\ ~MonitorMode
     THEN \/ /\ rq' = OnWCall(OnFwd(rq, EvFwd), EvWC(ALLNODES, 0))
             /\ main' = "shutwrite" /\ ret' = ret
          \/ /\ FwdFaults                                  \* the final RA cannot be built: only logged
             /\ \E c \in {"other", "sys"} : rq' = OnRet(OnDone(OnFwd(rq, EvFwdErr(c)), EvK), [res |-> "nil", t |-> now])
             /\ main' = "ret" /\ ret' = "nil"
     ELSE /\ rq' = OnRet(OnDone(rq, EvK), [res |-> "nil", t |-> now])
          /\ main' = "ret" /\ ret' = "nil"
  /\ UNCHANGED <<now, parent, term, egc, egerr, sch, stopped, tasks, nextId, wk, mc, ls, lsown, intr, dl, lw, linkEv, wcl, ipc, inbox, fwd, held, conn, nIn, nFlip, nHold, nQuery>>

M_ShutRet ==
  /\ main = "shutwrite" /\ ALLNODES \notin held
  /\ \E res \in (IF WriteFaults THEN {"ok", "other", "sys"} ELSE {"ok"}) :      \* a failure here is only logged
       rq' = OnRet(OnDone(OnWRet(rq, EvWRc(ALLNODES, res)), EvK), [res |-> "nil", t |-> now])
  /\ main' = "ret" /\ ret' = "nil"
  /\ UNCHANGED <<now, parent, term, egc, egerr, sch, stopped, tasks, nextId, wk, mc, ls, lsown, intr, dl, lw, linkEv, wcl, ipc, inbox, fwd, held, conn, nIn, nFlip, nHold, nQuery>>

---------------------------------------------------------------------------
(* scheduler goroutine: schedule() *)
ErrBlocked == {i \in DOMAIN wk : wk[i].pc = "errsend"}
InFlight   == {i \in DOMAIN wk : wk[i].pc \in {"build", "built", "wcall", "count", "errcount", "errsend"}}

S_RecvErr ==
  /\ sch.pc = "select" /\ ErrBlocked # {}
  /\ \E i \in ErrBlocked :
       /\ wk' = [wk EXCEPT ![i].pc = "done"]
       /\ sch' = [sch EXCEPT !.pc = "stopping", !.ctxc = TRUE, !.err = IF wk[i].life = 1 THEN "txerrsys" ELSE "txerr"]
       /\ stopped' = TRUE /\ tasks' = {}          \* stop(): pending timers are stopped
  /\ UNCHANGED <<now, parent, term, egc, egerr, main, ret, nextId, mc, ls, lsown, intr, dl, lw, linkEv, wcl, ipc, inbox, fwd, held, rq, conn, nIn, nFlip, nHold, nQuery>>

S_CtxDone ==
  /\ sch.pc = "select" /\ SchC
  /\ sch' = [sch EXCEPT !.pc = "stopping"]
  /\ stopped' = TRUE /\ tasks' = {}               \* stop(): pending timers are stopped
  /\ UNCHANGED <<now, parent, term, egc, egerr, main, ret, nextId, wk, mc, ls, lsown, intr, dl, lw, linkEv, wcl, ipc, inbox, fwd, held, rq, conn, nIn, nFlip, nHold, nQuery>>

\* stop(): wg.Wait() for the workers that got past the stopped check
S_Stopped ==
  /\ sch.pc = "stopping" /\ InFlight = {}
  /\ sch' = [sch EXCEPT !.pc = "done"]
  /\ IF sch.err # NONE THEN Fail(sch.err) ELSE UNCHANGED <<egc, egerr>>
  /\ UNCHANGED <<now, parent, term, main, ret, stopped, tasks, nextId, wk, mc, ls, lsown, intr, dl, lw, linkEv, wcl, ipc, inbox, fwd, held, rq, conn, nIn, nFlip, nHold, nQuery>>

S_RecvIP ==
  /\ sch.pc = "select" /\ ipc # <<>>
  /\ LET d == Head(ipc) IN
     /\ ipc' = Tail(ipc)
     /\ IF ~IsMc(d)
        THEN \E dly \in 0..(MaxRADelay - 1) :              \* prng.Int63n(maxRADelay)
               /\ tasks' = tasks \cup {[id |-> nextId, at |-> now + dly, dst |-> d]}
               /\ sch' = sch /\ nextId' = nextId + 1
        ELSE IF sch.last > now
             THEN /\ tasks' = tasks /\ sch' = sch /\ nextId' = nextId   \* already scheduled: coalesce
             ELSE LET dly == IF sch.last + MinDelay > now THEN sch.last + MinDelay - now ELSE 0 IN
                  /\ tasks' = tasks \cup {[id |-> nextId, at |-> now + dly, dst |-> d]}
                  /\ sch' = [sch EXCEPT !.last = now + dly]
                  /\ nextId' = nextId + 1
  /\ UNCHANGED <<now, parent, term, egc, egerr, main, ret, stopped, wk, mc, ls, lsown, intr, dl, lw, linkEv, wcl, inbox, fwd, held, rq, conn, nIn, nFlip, nHold, nQuery>>

\* a timer fires at its deadline into its own goroutine (a timer that fired
\* just before stop() is not recalled by Stop: its goroutine meets `stopped`)
T_Fire ==
  /\ sch.pc # "off"
  /\ \E tk \in tasks :
       /\ tk.at <= now
       /\ tasks' = tasks \ {tk}
       /\ wk' = [i \in (DOMAIN wk) \cup {tk.id} |->
                   IF i = tk.id THEN [pc |-> "start", dst |-> tk.dst, life |-> 0] ELSE wk[i]]
  /\ UNCHANGED <<now, parent, term, egc, egerr, main, ret, sch, stopped, nextId, mc, ls, lsown, intr, dl, lw, linkEv, wcl, ipc, inbox, fwd, held, rq, conn, nIn, nFlip, nHold, nQuery>>

---------------------------------------------------------------------------
(* send workers: work() -> sendWorker() -> send() -> buildRA() -> WriteTo *)
W_Start ==
  /\ \E i \in DOMAIN wk :
       /\ wk[i].pc = "start"
       /\ wk' = [wk EXCEPT ![i].pc =
                   IF stopped THEN "done"
                   ELSE IF UnicastOnly /\ IsMc(wk[i].dst) THEN "done"   \* nothing sent, nothing counted
                   ELSE "build"]
  /\ UNCHANGED <<now, parent, term, egc, egerr, main, ret, sch, stopped, tasks, nextId, mc, ls, lsown, intr, dl, lw, linkEv, wcl, ipc, inbox, fwd, held, rq, conn, nIn, nFlip, nHold, nQuery>>

W_Build ==     \* reads the forwarding flag: its own step, so a flip can fall before or after
  /\ \E i \in DOMAIN wk :
       /\ wk[i].pc = "build"
       /\ \E res \in FwdRes :
            IF res = "ok"
            THEN /\ wk' = [wk EXCEPT ![i].pc = "built", ![i].life = Life]
                 /\ rq' = Gen(rq)
            ELSE \* sendWorker: logged, counted as a transmit error, reported to the scheduler
                 /\ wk' = [wk EXCEPT ![i].pc = "errcount", ![i].life = IF res = "sys" THEN 1 ELSE 0]
                 /\ rq' = OnFwd(rq, EvFwdErr(res))
  /\ UNCHANGED <<now, parent, term, egc, egerr, main, ret, sch, stopped, tasks, nextId, mc, ls, lsown, intr, dl, lw, linkEv, wcl, ipc, inbox, fwd, held, conn, nIn, nFlip, nHold, nQuery>>

W_WCall ==
  /\ \E i \in DOMAIN wk :
       /\ wk[i].pc = "built"
       /\ rq' = OnWCall(rq, EvWC(wk[i].dst, wk[i].life))
       /\ wk' = [wk EXCEPT ![i].pc = "wcall"]
  /\ UNCHANGED <<now, parent, term, egc, egerr, main, ret, sch, stopped, tasks, nextId, mc, ls, lsown, intr, dl, lw, linkEv, wcl, ipc, inbox, fwd, held, conn, nIn, nFlip, nHold, nQuery>>

W_WRet ==
  /\ \E i \in DOMAIN wk :
       /\ wk[i].pc = "wcall" /\ wk[i].dst \notin held
       /\ \E res \in (IF WriteFaults THEN {"ok", "other", "sys"} ELSE {"ok"}) :
            /\ wk' = [wk EXCEPT ![i].pc = IF res = "ok" THEN "count" ELSE "errcount", ![i].life = IF res = "sys" THEN 1 ELSE 0]
            /\ rq' = OnWRet(rq, EvWRc(wk[i].dst, res))
  /\ UNCHANGED <<now, parent, term, egc, egerr, main, ret, sch, stopped, tasks, nextId, mc, ls, lsown, intr, dl, lw, linkEv, wcl, ipc, inbox, fwd, held, conn, nIn, nFlip, nHold, nQuery>>

W_Count ==
  /\ \E i \in DOMAIN wk :
       /\ wk[i].pc \in {"count", "errcount"}
       /\ IF wk[i].pc = "count"
          THEN /\ rq' = OnCnt(rq, EvCnt(IF IsMc(wk[i].dst) THEN "m" ELSE "u"))
               /\ wk' = [wk EXCEPT ![i].pc = "done"]
          ELSE /\ rq' = OnCnt(rq, EvCnt("txerr"))
               /\ wk' = [wk EXCEPT ![i].pc = "errsend"]
  /\ UNCHANGED <<now, parent, term, egc, egerr, main, ret, sch, stopped, tasks, nextId, mc, ls, lsown, intr, dl, lw, linkEv, wcl, ipc, inbox, fwd, held, conn, nIn, nFlip, nHold, nQuery>>

\* select { errC <- err ; <-ctx.Done() }: the receive side is S_RecvErr
W_ErrGiveUp ==
  /\ \E i \in DOMAIN wk :
       /\ wk[i].pc = "errsend" /\ SchC
       /\ wk' = [wk EXCEPT ![i].pc = "done"]
  /\ UNCHANGED <<now, parent, term, egc, egerr, main, ret, sch, stopped, tasks, nextId, mc, ls, lsown, intr, dl, lw, linkEv, wcl, ipc, inbox, fwd, held, rq, conn, nIn, nFlip, nHold, nQuery>>

---------------------------------------------------------------------------
(* unsolicited multicast loop: multicast() *)
MC_Check ==
  /\ mc.pc = "check"
  /\ mc' = [mc EXCEPT !.pc = IF EgC THEN "done" ELSE "send"]
  /\ UNCHANGED <<now, parent, term, egc, egerr, main, ret, sch, stopped, tasks, nextId, wk, ls, lsown, intr, dl, lw, linkEv, wcl, ipc, inbox, fwd, held, rq, conn, nIn, nFlip, nHold, nQuery>>

MC_Send ==     \* select { <-ctx.Done() ; ipC <- all-nodes }, then arm the timer
  /\ mc.pc = "send"
  /\ \/ /\ EgC /\ mc' = [mc EXCEPT !.pc = "done"] /\ ipc' = ipc
     \/ /\ Len(ipc) < ChanCap
        /\ ipc' = Append(ipc, ALLNODES)
        /\ \E d \in Waits(mc.i) :
             mc' = [pc |-> "wait", i |-> IF mc.i < InitCount THEN mc.i + 1 ELSE mc.i, timer |-> now + d]
  /\ UNCHANGED <<now, parent, term, egc, egerr, main, ret, sch, stopped, tasks, nextId, wk, ls, lsown, intr, dl, lw, linkEv, wcl, inbox, fwd, held, rq, conn, nIn, nFlip, nHold, nQuery>>

MC_Wake ==
  /\ mc.pc = "wait"
  /\ \/ EgC /\ mc' = [mc EXCEPT !.pc = "done"]
     \/ mc.timer <= now /\ mc' = [mc EXCEPT !.pc = "check"]
  /\ UNCHANGED <<now, parent, term, egc, egerr, main, ret, sch, stopped, tasks, nextId, wk, ls, lsown, intr, dl, lw, linkEv, wcl, ipc, inbox, fwd, held, rq, conn, nIn, nFlip, nHold, nQuery>>

---------------------------------------------------------------------------
(* listener goroutine: Listen() + receiveRetry(); interrupt goroutine *)
Again == IF LsC THEN "exitwait" ELSE "read"     \* loop head of receiveRetry: ctx.Err() check
RCallIfReading(r) == IF LsC THEN r ELSE OnRCall(r, EvRC)

L_Top ==      \* top of receiveRetry: i := 0, ctx check, ReadFrom is called
  /\ ls.pc = "top"
  /\ ls' = [ls EXCEPT !.pc = Again, !.i = 0]
  /\ rq' = RCallIfReading(rq)
  /\ UNCHANGED <<now, parent, term, egc, egerr, main, ret, sch, stopped, tasks, nextId, wk, mc, lsown, intr, dl, lw, linkEv, wcl, ipc, inbox, fwd, held, conn, nIn, nFlip, nHold, nQuery>>

L_Read ==
  /\ ls.pc = "read"
  /\ \/ /\ dl                       \* expired deadline => timeout; only ever set after cancellation
        /\ ls' = [ls EXCEPT !.pc = "exitwait"]
        /\ rq' = OnIn(rq, EvIn("deadline", "", 0))
        /\ inbox' = inbox
     \/ /\ ~dl /\ inbox # <<>>
        /\ LET msg == Head(inbox) IN
           /\ inbox' = Tail(inbox)
           /\ CASE msg.kind \in {"readerr", "readerrsys"} ->
                     /\ ls' = [ls EXCEPT !.pc = IF LsC THEN "exitwait" ELSE "errexit", !.msg = msg.kind]
                     /\ rq' = OnIn(rq, EvInC("readerr", IF msg.kind = "readerrsys" THEN "sys" ELSE "other", "", 0))
                [] msg.kind = "timeout" ->
                     /\ ls' = [ls EXCEPT !.pc = IF LsC THEN "exitwait" ELSE "backoff",
                                         !.timer = now + ls.i * BackoffUnit]
                     /\ rq' = OnIn(rq, EvIn("timeout", "", 0))
                [] msg.kind = "badhl" ->      \* counted invalid; does NOT consume a retry
                     /\ ls' = [ls EXCEPT !.pc = Again]
                     /\ rq' = RCallIfReading(OnCnt(OnIn(rq, EvIn("rs", IF msg.src = NONE THEN "badsrc" ELSE msg.src, 1)), EvCnt("inv")))
                [] OTHER ->
                     /\ ls' = [ls EXCEPT !.pc = "handle", !.msg = msg]
                     /\ rq' = OnIn(rq, EvIn(IF msg.kind \in {"rasame", "radiff"} THEN "ra"
                                            ELSE IF msg.kind = "other" THEN "ns" ELSE msg.kind,
                                            msg.src, 255))
  /\ UNCHANGED <<now, parent, term, egc, egerr, main, ret, sch, stopped, tasks, nextId, wk, mc, lsown, intr, dl, lw, linkEv, wcl, ipc, fwd, held, conn, nIn, nFlip, nHold, nQuery>>

L_Backoff ==
  /\ ls.pc = "backoff"
  /\ \/ LsC /\ ls' = [ls EXCEPT !.pc = "exitwait"] /\ rq' = rq
     \/ /\ ls.timer <= now
        /\ LET exhausted == ls.i + 1 >= Retries IN
           /\ ls' = [ls EXCEPT !.i = @ + 1,
                               !.pc = IF exhausted THEN (IF LsC THEN "exitwait" ELSE "errexit") ELSE Again,
                               !.msg = "exhausted"]
           /\ rq' = IF exhausted THEN rq ELSE RCallIfReading(rq)
  /\ UNCHANGED <<now, parent, term, egc, egerr, main, ret, sch, stopped, tasks, nextId, wk, mc, lsown, intr, dl, lw, linkEv, wcl, ipc, inbox, fwd, held, conn, nIn, nFlip, nHold, nQuery>>

\* Advertiser.handle: counts the message; RS => destination for the scheduler;
\* RA => builds our own RA (reads forwarding) and verifies; anything else => invalid
L_Handle ==
  /\ ls.pc = "handle"
  /\ LET msg == ls.msg
         r1  == OnCnt(rq, EvCnt("rx")) IN
     \/ /\ ls' = IF msg.kind = "rs" /\ ~MonitorMode
                 THEN [ls EXCEPT !.pc = "push", !.msg = IF msg.src = UNSPEC THEN ALLNODES ELSE msg.src]
                 ELSE [ls EXCEPT !.pc = "top", !.msg = NONE]
        /\ rq' = CASE MonitorMode         -> r1                                  \* Monitor.handle: count, export, nothing else
                   [] msg.kind = "other"  -> OnCnt(r1, EvCnt("inv"))
                   [] msg.kind = "rasame" -> Gen(r1)                             \* buildRA for the comparison
                   [] msg.kind = "radiff" -> OnHook(Gen(r1), [life |-> Life, body |-> "b", t |-> now])
                   [] OTHER               -> r1
     \/ \* our own RA cannot be built for the comparison: handle fails, and with it Listen
        /\ FwdFaults /\ ~MonitorMode /\ msg.kind \in {"rasame", "radiff"}
        /\ \E c \in {"other", "sys"} :
             /\ rq' = OnFwd(r1, EvFwdErr(c))
             /\ ls' = [ls EXCEPT !.pc = "errexit", !.msg = IF c = "sys" THEN "readerrsys" ELSE "readerr"]
  /\ UNCHANGED <<now, parent, term, egc, egerr, main, ret, sch, stopped, tasks, nextId, wk, mc, lsown, intr, dl, lw, linkEv, wcl, ipc, inbox, fwd, held, conn, nIn, nFlip, nHold, nQuery>>

L_Push ==     \* select { <-ctx.Done() ; ipC <- ip }  (ctx of the errgroup)
  /\ ls.pc = "push"
  /\ \/ /\ EgC /\ ipc' = ipc
     \/ /\ Len(ipc) < ChanCap /\ ipc' = Append(ipc, ls.msg)
  /\ ls' = [ls EXCEPT !.pc = "top", !.msg = NONE]
  /\ UNCHANGED <<now, parent, term, egc, egerr, main, ret, sch, stopped, tasks, nextId, wk, mc, lsown, intr, dl, lw, linkEv, wcl, inbox, fwd, held, rq, conn, nIn, nFlip, nHold, nQuery>>

\* error return from Listen: deferred cancel() then eg.Wait() for the interrupt goroutine
L_ErrCancel ==
  /\ ls.pc = "errexit"
  /\ ls' = [ls EXCEPT !.pc = "errwait"] /\ lsown' = TRUE
  /\ UNCHANGED <<now, parent, term, egc, egerr, main, ret, sch, stopped, tasks, nextId, wk, mc, intr, dl, lw, linkEv, wcl, ipc, inbox, fwd, held, rq, conn, nIn, nFlip, nHold, nQuery>>

L_ErrDone ==
  /\ ls.pc = "errwait" /\ intr = "done"
  /\ ls' = [ls EXCEPT !.pc = "done"]
  /\ Fail(ls.msg)
  /\ UNCHANGED <<now, parent, term, main, ret, sch, stopped, tasks, nextId, wk, mc, lsown, intr, dl, lw, linkEv, wcl, ipc, inbox, fwd, held, rq, conn, nIn, nFlip, nHold, nQuery>>

L_ExitWait ==
  /\ ls.pc = "exitwait" /\ intr = "done"
  /\ ls' = [ls EXCEPT !.pc = "done"]
  /\ UNCHANGED <<now, parent, term, egc, egerr, main, ret, sch, stopped, tasks, nextId, wk, mc, lsown, intr, dl, lw, linkEv, wcl, ipc, inbox, fwd, held, rq, conn, nIn, nFlip, nHold, nQuery>>

I_Fire ==
  /\ intr = "wait" /\ LsC
  /\ intr' = "done" /\ dl' = TRUE
  /\ UNCHANGED <<now, parent, term, egc, egerr, main, ret, sch, stopped, tasks, nextId, wk, mc, ls, lsown, lw, linkEv, wcl, ipc, inbox, fwd, held, rq, conn, nIn, nFlip, nHold, nQuery>>

---------------------------------------------------------------------------
(* link-state watcher goroutine: linkStateWatcher() *)
LW_Step ==
  /\ lw = "wait"
  /\ \/ /\ linkEv /\ lw' = "done" /\ Fail("linkchange")
     \/ /\ EgC /\ lw' = "done" /\ UNCHANGED <<egc, egerr>>
     \/ /\ wcl /\ ~linkEv /\ lw' = "done" /\ UNCHANGED <<egc, egerr>>      \* closed channel: returns nil, not a link change
  /\ UNCHANGED <<now, parent, term, main, ret, sch, stopped, tasks, nextId, wk, mc, ls, lsown, intr, dl, linkEv, wcl, ipc, inbox, fwd, held, rq, conn, nIn, nFlip, nHold, nQuery>>

---------------------------------------------------------------------------
Internal == M_InitSend \/ M_EgDone \/ D_Redial \/ M_ShutCall \/ M_ShutRet
            \/ S_RecvErr \/ S_CtxDone \/ S_Stopped \/ S_RecvIP \/ T_Fire
            \/ W_Start \/ W_Build \/ W_WCall \/ W_WRet \/ W_Count \/ W_ErrGiveUp
            \/ MC_Check \/ MC_Send \/ MC_Wake
            \/ L_Top \/ L_Read \/ L_Backoff \/ L_Handle \/ L_Push \/ L_ErrCancel \/ L_ErrDone \/ L_ExitWait
            \/ I_Fire \/ LW_Step

Quiescent == ~ENABLED Internal

Msgs == {[kind |-> "rs", src |-> h] : h \in Hosts \cup {UNSPEC}}
        \cup {[kind |-> k, src |-> NONE] : k \in Kinds}

\* a metrics scrape or a debug-API request (C04/C17): reads forwarding and reports what an RA built now would carry
E_Query ==
  /\ nQuery < MaxQueries /\ Quiescent
  /\ \E api \in BOOLEAN :
       rq' = LET r1 == OnFwd(OnQueryCall(OnQuiet(rq, EvT), EvT), EvFwd) IN
             IF api THEN OnApi(r1, [ok |-> TRUE, life |-> Life, t |-> now])
             ELSE OnScrape(r1, [ok |-> TRUE, fwd |-> fwd, misconf |-> ~fwd /\ CfgLife > 0, t |-> now])
  /\ nQuery' = nQuery + 1
  /\ UNCHANGED <<now, parent, term, egc, egerr, main, ret, sch, stopped, tasks, nextId, wk, mc, ls, lsown, intr, dl, lw, linkEv, wcl, ipc, inbox, fwd, held, conn, nIn, nFlip, nHold>>

\* messages arrive at quiescent points, or back to back while earlier ones are
\* still queued (bursts overtake the listener); a message arriving in the middle
\* of other internal steps is indistinguishable from one queued just before them
E_Arrive ==
  /\ nIn < MaxIn /\ main = "egwait"
  /\ Quiescent \/ inbox # <<>>
  /\ \E msg \in Msgs : inbox' = Append(inbox, msg)
  /\ nIn' = nIn + 1
  /\ UNCHANGED <<now, parent, term, egc, egerr, main, ret, sch, stopped, tasks, nextId, wk, mc, ls, lsown, intr, dl, lw, linkEv, wcl, ipc, fwd, held, rq, conn, nFlip, nHold, nQuery>>

E_Cancel ==
  /\ AllowCancel /\ Quiescent /\ parent = "live" /\ main = "egwait"
  /\ parent' = "canceled"
  /\ \E b \in BOOLEAN : /\ term' = b
                        /\ rq' = OnCancel(OnQuiet(rq, EvT), [term |-> b, t |-> now])
  /\ UNCHANGED <<now, egc, egerr, main, ret, sch, stopped, tasks, nextId, wk, mc, ls, lsown, intr, dl, lw, linkEv, wcl, ipc, inbox, fwd, held, conn, nIn, nFlip, nHold, nQuery>>

E_WClose ==
  /\ LinkFaults /\ Quiescent /\ ~wcl /\ main = "egwait"
  /\ wcl' = TRUE
  /\ UNCHANGED <<now, parent, term, egc, egerr, main, ret, sch, stopped, tasks, nextId, wk, mc, ls, lsown, intr, dl, lw, linkEv, ipc, inbox, fwd, held, rq, conn, nIn, nFlip, nHold, nQuery>>

E_Link ==
  /\ LinkFaults /\ Quiescent /\ ~linkEv /\ ~wcl /\ main = "egwait" /\ lw = "wait"
  /\ linkEv' = TRUE /\ rq' = OnLink(OnQuiet(rq, EvT), EvT)
  /\ UNCHANGED <<now, parent, term, egc, egerr, main, ret, sch, stopped, tasks, nextId, wk, mc, ls, lsown, intr, dl, lw, wcl, ipc, inbox, fwd, held, conn, nIn, nFlip, nHold, nQuery>>

E_Flip ==
  /\ nFlip < MaxFlips
  /\ fwd' = ~fwd /\ nFlip' = nFlip + 1
  /\ UNCHANGED <<now, parent, term, egc, egerr, main, ret, sch, stopped, tasks, nextId, wk, mc, ls, lsown, intr, dl, lw, linkEv, wcl, ipc, inbox, held, rq, conn, nIn, nHold, nQuery>>

\* the driver holds a destination's WriteTo open (slow transmit) and lets it go
E_Hold ==
  /\ nHold < MaxHolds /\ main = "egwait"
  /\ \E d \in (Hosts \cup {ALLNODES}) \ held : held' = held \cup {d}
  /\ nHold' = nHold + 1 /\ rq' = OnHold(rq, EvT)
  /\ UNCHANGED <<now, parent, term, egc, egerr, main, ret, sch, stopped, tasks, nextId, wk, mc, ls, lsown, intr, dl, lw, linkEv, wcl, ipc, inbox, fwd, conn, nIn, nFlip, nQuery>>

E_Release ==
  /\ Quiescent /\ held # {}
  /\ \E d \in held : held' = held \ {d}
  /\ rq' = OnRelease(rq, EvT)
  /\ UNCHANGED <<now, parent, term, egc, egerr, main, ret, sch, stopped, tasks, nextId, wk, mc, ls, lsown, intr, dl, lw, linkEv, wcl, ipc, inbox, fwd, conn, nIn, nFlip, nHold, nQuery>>

Tick ==
  /\ Quiescent /\ now < MaxT
  /\ now' = now + 1
  /\ rq' = OnAdvance(OnQuiet(rq, EvT), [to |-> now + 1, t |-> now])
  /\ UNCHANGED <<parent, term, egc, egerr, main, ret, sch, stopped, tasks, nextId, wk, mc, ls, lsown, intr, dl, lw, linkEv, wcl, ipc, inbox, fwd, held, conn, nIn, nFlip, nHold, nQuery>>

Next == Internal \/ E_Arrive \/ E_Cancel \/ E_Link \/ E_WClose \/ E_Flip \/ E_Hold \/ E_Release \/ E_Query \/ Tick
Spec == Init /\ [][Next]_vars
FairSpec == Spec /\ WF_vars(Internal) /\ WF_vars(Tick) /\ WF_vars(E_Release)

---------------------------------------------------------------------------
(* Requirements: the AdvReq monitor never flags (C04, C06-C10), plus       *)
(* model-level invariants about the goroutine structure.                   *)
\* (the model follows the code, so it also exhibits the known finding D19: the Dialer re-dials without delay after a
\* successful dial; that one clause is therefore not part of "Impl => Req")
Req == rq.bad \ {"c10-redial-loop-without-backoff"} = {}

Ended == parent = "canceled" \/ egerr # NONE \/ egc \/ sch.err # NONE
C08_Prompt      == (Quiescent /\ parent = "canceled" /\ held = {}) => main = "ret"
C08_NothingRunsAfterReturn == main = "ret" => InFlight = {}
C09_Alive       == (Quiescent /\ ~Ended /\ main = "egwait" /\ ~linkEv) => ls.pc \in {"read", "backoff"}
C10_NoHalfAlive == (Quiescent /\ (egerr # NONE \/ sch.err # NONE) /\ held = {}) => main = "ret"
C10_NoLeak      == main = "ret" => /\ ls.pc = "done" /\ mc.pc = "done" /\ sch.pc = "done" /\ lw = "done"
                                     /\ intr = "done" /\ InFlight = {}
                                     /\ \A i \in DOMAIN wk : wk[i].pc \in {"done", "start"}

TypeOK == /\ main \in {"init", "egwait", "redial", "shutdown", "shutwrite", "ret"}
          /\ sch.pc \in {"off", "select", "stopping", "done"}
          /\ Len(ipc) <= ChanCap

\* liveness (small configs only): a stop request leads to return
L_StopReturns == (parent = "canceled") ~> (main = "ret")
\* ... and so does a fault raised by any goroutine of the session
L_FaultReturns == (egerr # NONE \/ sch.err # NONE) ~> (main = "ret")
=============================================================================
