------------------------------- MODULE WatchMC -------------------------------
(* Bounded exploration of WatchReq: every sequence of up to Depth calls       *)
(* (subscribe / notify batch / drain / end) over small alphabets; lemmas are  *)
(* checked in every state and each maximal sequence is printed as a script    *)
(* for the real Watcher.                                                      *)
EXTENDS WatchReq, TLC, Json

CONSTANTS Ifaces, Masks, AllMasks, Changes, Depth, MaxSubs, MaxBatchLen,
          EmitMod     \* print one history in EmitMod (a checksum over the buffers decides which)

TheMasks == IF AllMasks THEN 1..127 ELSE Masks

VARIABLES w, hist
mv == <<w, hist>>

Batches == {<<[iface |-> i, changes |-> cs]>> : i \in Ifaces, cs \in UNION {[1..n -> Changes] : n \in 1..MaxBatchLen}}
           \cup {b \in {<<[iface |-> i, changes |-> <<c>>], [iface |-> j, changes |-> <<d>>]>> :
                          i \in Ifaces, j \in Ifaces, c \in Changes, d \in Changes} : b[1].iface # b[2].iface}

MInit == w = WInit /\ hist = <<>>
Step(op, nw) == w' = nw /\ hist' = Append(hist, op)

MNext ==
  /\ Len(hist) < Depth
  /\ \/ \E i \in Ifaces, m \in TheMasks :
          /\ Len(w.subs) < MaxSubs
          /\ Step([op |-> "sub", iface |-> i, mask |-> m], OnSubscribe(w, [iface |-> i, mask |-> m]))
     \/ \E b \in Batches : ~w.ended /\ Step([op |-> "notify", batch |-> b], OnNotify(w, [batch |-> b]))
     \/ \E k \in 1..Len(w.subs) :
          /\ w.subs[k].buf # <<>> \/ w.ended
          /\ Step([op |-> "drain", i |-> k], [w EXCEPT !.subs[k].buf = <<>>])
     \/ ~w.ended /\ Step([op |-> "end"], OnEnd(w, [x |-> 0]))
MSpec == MInit /\ [][MNext]_mv

\* lemmas of the requirement
Bounded   == \A k \in 1..Len(w.subs) : Len(w.subs[k].buf) <= Cap
OnlyAsked == \A k \in 1..Len(w.subs) : \A j \in 1..Len(w.subs[k].buf) : Intersects(w.subs[k].mask, w.subs[k].buf[j])
ClosedIffEnded == \A k \in 1..Len(w.subs) : w.subs[k].closed = (w.ended /\ ~w.subs[k].late)
NoFlag == w.bad = {}
RECURSIVE SumSeq(_)
SumSeq(q) == IF q = <<>> THEN 0 ELSE Head(q) + SumSeq(Tail(q))
Checksum == LET per == [k \in 1..Len(w.subs) |-> SumSeq(w.subs[k].buf) + w.subs[k].mask * k] IN SumSeq(per) + Len(w.subs) * 7
Emit == (Len(hist) = Depth /\ Checksum % EmitMod = 0) => PrintT(ToJson([h |-> hist]))
=============================================================================
