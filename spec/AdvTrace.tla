----------------------------- MODULE AdvTrace -----------------------------
(* Requirement trace validation for the advertiser family: consumes the     *)
(* events recorded from the REAL code (trace.ndjson in the working dir, one *)
(* JSON object per line, many scenarios concatenated; "reset" starts one)   *)
(* and runs the AdvReq monitor over them. Deterministic: one successor per  *)
(* state, so validation is linear in the trace length. Each violated        *)
(* scenario is reported once through PrintT as a JSON object.               *)
EXTENDS Integers, Sequences, FiniteSets, TLC, Json

CONSTANTS MinDelay, MaxRADelay, BackoffUnit, Retries, InitCap, InitCount, Sec

INSTANCE AdvReq

Trace == ndJsonDeserialize("trace.ndjson")

VARIABLES l, m, sid, nbad
tvars == <<l, m, sid, nbad>>

Step(mm, e) ==
  CASE e.ev = "dial"    -> OnDial(mm, e)
    [] e.ev = "done"    -> OnDone(mm, e)
    [] e.ev = "rcall"   -> OnRCall(mm, e)
    [] e.ev = "in"      -> OnIn(mm, e)
    [] e.ev = "fwd"     -> OnFwd(mm, e)
    [] e.ev = "wcall"   -> OnWCall(mm, e)
    [] e.ev = "wret"    -> OnWRet(mm, e)
    [] e.ev = "cnt"     -> OnCnt(mm, e)
    [] e.ev = "hook"    -> OnHook(mm, e)
    [] e.ev = "qcall"   -> OnQueryCall(mm, e)
    [] e.ev = "scrape"  -> OnScrape(mm, e)
    [] e.ev = "api"     -> OnApi(mm, e)
    [] e.ev = "mislog"  -> OnMisLog(mm, e)
    [] e.ev = "cancel"  -> OnCancel(mm, e)
    [] e.ev = "link"    -> OnLink(mm, e)
    [] e.ev = "hold"    -> OnHold(mm, e)
    [] e.ev = "release" -> OnRelease(mm, e)
    [] e.ev = "quiet"   -> OnQuiet(mm, e)
    [] e.ev = "advance" -> OnAdvance(mm, e)
    [] e.ev = "ret"     -> OnRet(mm, e)
    [] e.ev = "tgate"   -> OnTGate(mm, e)
    [] e.ev = "termask" -> OnTermAsk(mm, e)
    [] e.ev = "sret"    -> OnSRet(mm, e)
    [] e.ev = "leak"    -> OnLeak(mm, e)
    [] e.ev = "hang"    -> OnHang(mm, e)
    [] e.ev = "panic"   -> OnPanic(mm, e)
    [] OTHER            -> mm

TInit == l = 1 /\ m = ReqInit([unicast |-> FALSE, cfglife |-> 0, mon |-> FALSE, strict |-> FALSE, quiet |-> FALSE, miniv |-> 0, maxiv |-> 0]) /\ sid = "" /\ nbad = 0

TNext ==
  /\ l <= Len(Trace)
  /\ LET e == Trace[l] IN
     /\ IF e.ev = "reset"
        THEN /\ m' = ReqInit([unicast |-> e.unicast, cfglife |-> e.cfglife, mon |-> e.mode = "mon", strict |-> e.strict, quiet |-> e.quiet, miniv |-> e.min, maxiv |-> e.max])
             /\ sid' = e.id
             /\ nbad' = nbad
        ELSE LET m2 == Step(m, e) IN
             /\ m' = m2
             /\ sid' = sid
             /\ LET fresh == m2.bad \ m.bad IN
                IF fresh # {}
                THEN /\ nbad' = nbad + Cardinality(fresh)
                     /\ \A c \in fresh : PrintT(ToJson([viol |-> c, id |-> sid, line |-> l, t |-> e.t]))
                ELSE nbad' = nbad
     /\ l' = l + 1

TSpec == TInit /\ [][TNext]_tvars

\* acceptance: the whole trace was consumed
Consumed == TLCGet("stats").diameter - 1 = Len(Trace)
=============================================================================
