------------------------------ MODULE VecTrace ------------------------------
(* Validation of recorded (input, output) observations of function-like      *)
(* parts of the real code against the requirement operators. One line of     *)
(* trace.ndjson per observation: [kind, id, in, out].                        *)
EXTENDS Integers, Sequences, FiniteSets, TLC, Json, Wildcards, Deprecation

Trace == ndJsonDeserialize("trace.ndjson")

Nets(s) == [i \in 1..Len(s) |-> [h |-> s[i].h, bits |-> s[i].bits]]

Expected(e) ==
  CASE e.kind = "c13" -> IF e.in.fail THEN [err |-> TRUE, nets |-> <<>>, uniform |-> TRUE]
                         ELSE [err |-> FALSE, nets |-> ReqPrefixes(e.in.addrs), uniform |-> TRUE]
    [] e.kind = "c14" -> IF e.in.fail THEN [err |-> TRUE, servers |-> <<>>]
                         ELSE ReqServers(e.in.addrs, [i \in 1..Len(e.in.static) |-> e.in.static[i].h])
    [] e.kind = "c15" -> IF e.in.fail THEN [err |-> TRUE, nets |-> <<>>, uniform |-> TRUE]
                         ELSE [err |-> FALSE, nets |-> ReqRoutes(e.in.routes), uniform |-> TRUE]
    [] e.kind = "c16" -> [lifetimes |-> ReqLifetimes(e.in)]

Observed(e) ==
  CASE e.kind \in {"c13", "c15"} -> [err |-> e.out.err, nets |-> Nets(e.out.nets), uniform |-> e.out.uniform]
    [] e.kind = "c14" -> [err |-> e.out.err, servers |-> e.out.servers]
    [] e.kind = "c16" -> [lifetimes |-> e.out.lifetimes]

VARIABLES l
TInit == l = 1
TNext == /\ l <= Len(Trace)
         /\ LET e == Trace[l] IN
            IF Observed(e) = Expected(e) THEN TRUE
            ELSE PrintT(ToJson([viol |-> e.kind, id |-> e.id, line |-> l]))
         /\ l' = l + 1
TSpec == TInit /\ [][TNext]_l
Consumed == TLCGet("stats").diameter - 1 = Len(Trace)
=============================================================================
