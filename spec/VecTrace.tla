------------------------------ MODULE VecTrace ------------------------------
(* Validation of recorded (input, output) observations of function-like      *)
(* parts of the real code against the requirement operators. One line of     *)
(* trace.ndjson per observation: [kind, id, in, out].                        *)
EXTENDS Integers, Sequences, FiniteSets, TLC, Json, Wildcards, Deprecation

Trace == ndJsonDeserialize("trace.ndjson")

Nets(s) == [i \in 1..Len(s) |-> [h |-> s[i].h, bits |-> s[i].bits]]

Expected(e) ==
  CASE e.kind = "c13" -> IF e.in.fail THEN [err |-> TRUE, nets |-> <<>>, uniform |-> TRUE]
                         ELSE [err |-> FALSE, nets |-> ReqPrefixes(e.in.addrs), uniform |-> TRUE]
    [] e.kind = "c14" -> IF e.in.fail THEN [err |-> TRUE, servers |-> <<>>]
                         ELSE ReqServers(e.in.addrs, [i \in 1..Len(e.in.static) |-> e.in.static[i].h])
    [] e.kind = "c15" -> IF e.in.fail THEN [err |-> TRUE, nets |-> <<>>, uniform |-> TRUE]
                         ELSE [err |-> FALSE, nets |-> ReqRoutes(e.in.routes), uniform |-> TRUE]
    [] e.kind = "c16" -> [lifetimes |-> ReqLifetimes(e.in)]

Observed(e) ==
  CASE e.kind \in {"c13", "c15"} -> [err |-> e.out.err, nets |-> Nets(e.out.nets), uniform |-> e.out.uniform]
    [] e.kind = "c14" -> [err |-> e.out.err, servers |-> e.out.servers]
    [] e.kind = "c16" -> [lifetimes |-> e.out.lifetimes]

\* C16 with a clock that moves between readings: the prefix's two lifetimes must come from ONE of the readings the
\* code made while building that option (so preferred can never exceed valid), the route's from one of its own.
C16OK(e) ==
  LET v == e.in
      tick == IF "tick" \in DOMAIN v THEN v.tick ELSE 0
      At(i, k) == AdvAt(v.epoch, v.valid, v.pref, v.rl, v.deprecated, v.reads[i] + k * tick)
      N(x) == IF tick = 0 \/ x < 1 THEN 1 ELSE x IN
  /\ Len(e.out.lifetimes) = Len(v.reads)
  /\ \A i \in 1..Len(v.reads) :
       LET row == e.out.lifetimes[i] IN
       /\ \E k \in 0..(N(e.out.calls[i][1]) - 1) : row[1] = At(i, k)[1] /\ row[2] = At(i, k)[2]
       /\ \E k \in 0..(N(e.out.calls[i][2]) - 1) : row[3] = At(i, k)[3]

VARIABLES l
TInit == l = 1
TNext == /\ l <= Len(Trace)
         /\ LET e == Trace[l] IN
            \* (a vector on which the code under test panicked has no result to compare: that is the violation)
            IF "panic" \notin DOMAIN e.out /\ (IF e.kind = "c16" THEN C16OK(e) ELSE Observed(e) = Expected(e)) THEN TRUE
            ELSE PrintT(ToJson([viol |-> e.kind, id |-> e.id, line |-> l]))
         /\ l' = l + 1
TSpec == TInit /\ [][TNext]_l
Consumed == TLCGet("stats").diameter - 1 = Len(Trace)
=============================================================================
