#!/usr/bin/env python3
"""Expands  @CHG(v1, v2, ...)  markers in <Module>.tla.in into
/\ UNCHANGED <<every other variable>>, reading the variable list from the
line  `vars == <<...>>`.  The .tla files are generated and committed; edit
the .tla.in and run  python3 spec/unch.py  to regenerate."""
import re, sys, os, glob
here = os.path.dirname(os.path.abspath(__file__))
for src in glob.glob(os.path.join(here, "*.tla.in")):
    text = open(src).read()
    m = re.search(r"^vars == <<(.*?)>>", text, re.S | re.M)
    allv = [v.strip() for v in m.group(1).replace("\n", " ").split(",") if v.strip()]
    def repl(mm):
        chg = [v.strip() for v in mm.group(1).split(",") if v.strip()]
        for c in chg:
            assert c in allv, (src, c)
        rest = [v for v in allv if v not in chg]
        if not rest:
            return "TRUE"
        return "UNCHANGED <<" + ", ".join(rest) + ">>"
    out = re.sub(r"@CHG\(([^)]*)\)", repl, text)
    out = out.replace("(* GENERATED-NOTE *)", "(* Generated from %s by spec/unch.py (only UNCHANGED clauses are expanded). *)" % os.path.basename(src))
    open(src[:-3], "w").write(out)
    print("generated", os.path.basename(src[:-3]))
