------------------------------ MODULE ServTrace ------------------------------
EXTENDS ServReq, TLC, Json
Trace == ndJsonDeserialize("trace.ndjson")
VARIABLES l, s, sid
tv == <<l, s, sid>>
Step(ss, e) == CASE e.ev = "trun" -> OnTRun(ss, e) [] e.ev = "tready" -> OnTReady(ss, e) [] e.ev = "tfail" -> OnTFail(ss, e)
                 [] e.ev = "tearly" -> OnTEarly(ss, e) [] e.ev = "tobs" -> OnTObs(ss, e) [] e.ev = "texit" -> OnTExit(ss, e)
                 [] e.ev = "signal" -> OnSignal(ss, e) [] e.ev = "nready" -> OnNReady(ss, e) [] e.ev = "sret" -> OnSRet(ss, e)
                 [] e.ev = "hold" -> OnHold(ss, e) [] e.ev = "release" -> OnRelease(ss, e) [] e.ev = "quiet" -> OnSQuiet(ss, e)
                 [] e.ev = "nonotify" -> OnNoNotify(ss, e) [] e.ev = "tsaw" -> OnTSaw(ss, e) [] e.ev = "tgate" -> OnTGate(ss, e)
                 [] e.ev = "wtask" -> OnWTask(ss, e) [] e.ev = "build" -> OnBuild(ss, e) [] e.ev = "retry" -> OnRetry(ss, e)
                 [] e.ev = "http" -> OnHttp(ss, e)
                 [] e.ev \in {"hang", "panic"} -> SFlag(ss, "c20-serve-hung-or-panicked") [] OTHER -> ss
TInit == l = 1 /\ s = SInit(0) /\ sid = ""
TNext == /\ l <= Len(Trace)
         /\ LET e == Trace[l] IN
            IF e.ev = "reset" THEN s' = SInit(e.n) /\ sid' = e.id
            ELSE LET s2 == Step(s, e) IN
                 /\ s' = s2 /\ sid' = sid
                 /\ \A c \in s2.bad \ s.bad : PrintT(ToJson([viol |-> c, id |-> sid, line |-> l]))
         /\ l' = l + 1
TSpec == TInit /\ [][TNext]_tv
Consumed == TLCGet("stats").diameter - 1 = Len(Trace)
=============================================================================
