------------------------------- MODULE MonReq -------------------------------
(* C18: what the monitor's metric store must contain after each received      *)
(* message (internal/corerad/monitor.go), as a deterministic monitor over     *)
(* observable events: messages returned by ReadFrom (with receipt time) and   *)
(* the metric updates the real code makes. The whole expected store is        *)
(* compared with the observed one at every quiescent point.                   *)
(* A store is a set of <<name, labels, value>>, at most one per name/labels.  *)
(* Expiry timestamps are relative to the start of the run:                    *)
(* [inf |-> lifetime is 2^32-1 s, rest |-> seconds besides that].             *)
EXTENDS Integers, Sequences, FiniteSets

TypeName(kind) == CASE kind = "ra" -> "router advertisement" [] kind = "rs" -> "router solicitation"
                    [] kind = "ns" -> "neighbor solicitation" [] kind = "na" -> "neighbor advertisement"

Get(store, name, labels, def) ==
  IF \E x \in store : x[1] = name /\ x[2] = labels
  THEN (CHOOSE x \in store : x[1] = name /\ x[2] = labels)[3] ELSE def
Put(store, name, labels, v) == {x \in store : ~(x[1] = name /\ x[2] = labels)} \cup {<<name, labels, v>>}

B(b) == IF b THEN 1 ELSE 0
\* Unix(receipt + lifetime) relative to the run's base second; frac = sub-second part (ms) of the base instant
Expiry(frac, t, d) == [inf |-> d.k = "inf",
                       rest |-> (IF d.k = "fin" THEN d.s ELSE 0) + ((frac + t + (IF d.k = "fin" THEN d.ms ELSE 0)) \div 1000)]

RECURSIVE ApplyPrefixes(_, _, _, _, _, _)
ApplyPrefixes(store, opts, ifi, host, frac, t) ==
  IF opts = <<>> THEN store
  ELSE LET o == Head(opts) IN
       IF o.k # "prefix" THEN ApplyPrefixes(store, Tail(opts), ifi, host, frac, t)
       ELSE LET lab == <<ifi, o.pfx, host>>
                s1 == Put(store, "corerad_monitor_prefix_autonomous", lab, B(o.auto))
                s2 == Put(s1, "corerad_monitor_prefix_on_link", lab, B(o.onlink))
                s3 == Put(s2, "corerad_monitor_prefix_preferred_expiration_timestamp_seconds", lab, Expiry(frac, t, o.pref))
                s4 == Put(s3, "corerad_monitor_prefix_valid_expiration_timestamp_seconds", lab, Expiry(frac, t, o.valid))
            IN ApplyPrefixes(s4, Tail(opts), ifi, host, frac, t)

\* one valid message (hop limit 255) from host (zone already removed) at time t
Receive(store, ifi, frac, e) ==
  LET host == IF e.src = "unspec" THEN "::" ELSE e.src      \* (events name the unspecified address "unspec"; its label is "::")
      s0 == Put(store, "corerad_monitor_messages_received_total", <<ifi, host, TypeName(e.kind)>>,
                Get(store, "corerad_monitor_messages_received_total", <<ifi, host, TypeName(e.kind)>>, 0) + 1)
  IN IF e.kind # "ra" THEN s0
     ELSE LET ra == e.ra
              s1 == Put(s0, "corerad_monitor_flag_managed", <<ifi, host>>, B(ra.m))
              s2 == Put(s1, "corerad_monitor_flag_other", <<ifi, host>>, B(ra.o))
              zero == ra.life.k = "fin" /\ ra.life.s = 0 /\ ra.life.ms = 0 /\ ra.life.ns = 0
              s3 == IF zero THEN s2
                    ELSE Put(s2, "corerad_monitor_default_route_expiration_timestamp_seconds", <<ifi, host>>, Expiry(frac, e.t, ra.life))
          IN ApplyPrefixes(s3, ra.opts, ifi, host, frac, e.t)

MonInit(ifi, frac) == [ifi |-> ifi, frac |-> frac, exp |-> {}, obs |-> {}, bad |-> {}]

OnMIn(m, e) == IF e.hl # 255 \/ e.kind \notin {"ra", "rs", "ns", "na"} THEN m     \* invalid / interrupt: no monitor series at all
               ELSE [m EXCEPT !.exp = Receive(@, m.ifi, m.frac, e)]
\* a metric update made by the real code: counters add, gauges set
OnMUpd(m, e) == IF e.counter
                THEN [m EXCEPT !.obs = Put(@, e.name, e.labels, Get(m.obs, e.name, e.labels, 0) + e.v)]
                ELSE [m EXCEPT !.obs = Put(@, e.name, e.labels, e.v)]
OnMQuiet(m, e) == IF m.obs # m.exp THEN [m EXCEPT !.bad = @ \cup {"c18-monitor-metrics-differ-from-received-messages"}] ELSE m
OnMFail(m, e)  == [m EXCEPT !.bad = @ \cup {"c18-monitor-failed"}]
=============================================================================
