---------------------------- MODULE VerifyTrace ----------------------------
(* C12 validation: for each recorded comparison the problems returned by     *)
(* verifyRAs, the inconsistency counters incremented by Advertiser.handle,   *)
(* the log lines and the hook must equal the requirement's bag.              *)
EXTENDS Verify, TLC, Json

Trace == ndJsonDeserialize("trace.ndjson")
VARIABLES l
TInit == l = 1
Pairs(s) == [i \in 1..Len(s) |-> <<s[i][1], s[i][2]>>]
Ok(e) == LET want == Problems(e.out.own, e.out.theirs) IN
         /\ ~e.out.panic
         /\ SameBag(Pairs(e.out.problems), want)
         /\ (e.out.handled => /\ SameBag(Pairs(e.out.counted), want)
                              /\ e.out.logged = Len(want)
                              /\ e.out.hook = (IF want = <<>> THEN 0 ELSE 1))
         \* an RA compared with its own wire round trip (whole-unit values) must be consistent
         /\ (e.in.selfwire => want = <<>>)
TNext == /\ l <= Len(Trace)
         /\ IF Ok(Trace[l]) THEN TRUE ELSE PrintT(ToJson([viol |-> "c12", id |-> Trace[l].id, line |-> l]))
         /\ l' = l + 1
TSpec == TInit /\ [][TNext]_l
Consumed == TLCGet("stats").diameter - 1 = Len(Trace)
=============================================================================
