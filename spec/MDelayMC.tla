------------------------------ MODULE MDelayMC ------------------------------
(* C05, function level: multicastDelay (internal/corerad/advertise.go)        *)
(* transcribed as ImplWait and checked against AllowedWait for every accepted *)
(* (min_interval, max_interval) pair: one initial state per max_interval, the *)
(* invariant quantifies over the accepted minimums, the advertisement index   *)
(* and the extreme / middle random draws. Unit: milliseconds.                 *)
EXTENDS Integers, FiniteSets, TLC, Json, Waits

CONSTANTS MaxLoS, MaxHiS,   \* range of max_interval in whole seconds
          Fracs,            \* sub-second parts (ms) added to max and to boundary minimums
          FullMins          \* TRUE: every whole-second minimum; FALSE: boundary minimums only

VARIABLE mx
MInit == mx \in {s * 1000 + f : s \in MaxLoS..MaxHiS, f \in Fracs} \cap 4000..1800000
MSpec == MInit /\ [][UNCHANGED mx]_mx

TruncSec(x) == (x \div 1000) * 1000
Upper(m)   == TruncSec((3 * m) \div 4)                       \* 0.75 * max truncated to a second
DefaultMin(m) == IF m >= 9000 THEN TruncSec((33 * m) \div 100) ELSE m
Boundary(m) == {3000, 3001, 3499, 3500, Upper(m) - 1000, Upper(m) - 500, Upper(m) - 1, Upper(m), DefaultMin(m),
                (3000 + Upper(m)) \div 2, 16000, 16500, 17000}
Mins(m) == {x \in (IF FullMins THEN {s * 1000 : s \in 3..(Upper(m) \div 1000)} ELSE {}) \cup Boundary(m) :
              (x >= 3000 /\ x <= Upper(m)) \/ x = DefaultMin(m)}

\* multicastDelay as coded
ImplWait(i, mn, m, draw) ==
  LET d == IF mn = m THEN RoundSec(m) ELSE RoundSec(mn + draw) IN
  IF i < InitCount /\ d > InitCap THEN InitCap ELSE d
Draws(mn, m) == IF mn = m THEN {0} ELSE {0, 1, 499, 500, (m - mn) \div 2, m - mn - 500, m - mn - 1} \cap 0..(m - mn - 1)

C05_Wait == \A mn \in Mins(mx) : \A i \in 0..4 : \A dr \in Draws(mn, mx) :
               AllowedWait(i, mn, mx, ImplWait(i, mn, mx, dr))
\* choosing the wait cannot fail: the draw range is never empty unless min = max
C05_RangeOK == \A mn \in Mins(mx) : mn <= mx
EmitVec == PrintT(ToJson([mx |-> mx, mins |-> Boundary(mx) \cap Mins(mx)]))
=============================================================================
