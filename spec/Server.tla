-------------------------------- MODULE Server --------------------------------
(* Generated from Server.tla.in by spec/unch.py (only UNCHANGED clauses are expanded). *)
(***************************************************************************)
(* Implementation-shaped model of Server.Serve with N stub tasks            *)
(* (internal/corerad/server.go): one errgroup goroutine per task, the       *)
(* signal task (set terminator; notify; cancel), one readiness goroutine    *)
(* per task, the announcer goroutine, and Serve's eg.Wait.                  *)
(*   T_Run, T_Ready, T_Fail, T_Early, T_Obs, T_Stop   task goroutines       *)
(*   Sig_Recv, Sig_Set, Sig_Cancel                    signal task           *)
(*   R_Seen, R_Announce                               readiness goroutines  *)
(*   Serve_Ret                                        eg.Wait returns       *)
(*   E_Signal, E_Release                              environment           *)
(* Composed with the ServReq monitor (rq): INVARIANT Req is Impl => Req.    *)
(***************************************************************************)
EXTENDS Integers, Sequences, FiniteSets, TLC, Json

CONSTANTS N,          \* number of stub tasks
          Behaviours, \* subset of {"run", "fail", "early", "slow", "neverready"} offered per task
          Sigs        \* subset of {"term", "hup", "none"}

INSTANCE ServReq

VARIABLES beh, pc, rdy, seen, term, ctxc, egerr, sigpc, sig, announced, sret, heldT, rq, hist
vars == <<beh, pc, rdy, seen, term, ctxc, egerr, sigpc, sig, announced, sret, heldT, rq, hist>>

T == 1..N
Init == /\ beh \in [T -> Behaviours]
        /\ pc = [i \in T |-> "new"] /\ rdy = [i \in T |-> FALSE] /\ seen = [i \in T |-> FALSE]
        /\ term = FALSE /\ ctxc = FALSE /\ egerr = 0 /\ sigpc = "wait" /\ sig \in Sigs
        /\ announced = FALSE /\ sret = "none" /\ heldT = {}
        /\ rq = SInit(N) /\ hist = <<>>

T_Run == \E i \in T : /\ pc[i] = "new" /\ pc' = [pc EXCEPT ![i] = "running"]
                      /\ rq' = OnTRun(rq, [i |-> i]) /\ UNCHANGED <<beh, rdy, seen, term, ctxc, egerr, sigpc, sig, announced, sret, heldT, hist>>

T_Ready == \E i \in T : /\ pc[i] = "running" /\ ~rdy[i] /\ beh[i] # "neverready"
                        /\ rdy' = [rdy EXCEPT ![i] = TRUE] /\ rq' = OnTReady(rq, [i |-> i])
                        /\ hist' = Append(hist, [op |-> "ready", i |-> i]) /\ UNCHANGED <<beh, pc, seen, term, ctxc, egerr, sigpc, sig, announced, sret, heldT>>

\* a task fails on its own: errgroup records the first error and cancels the group
T_Fail == \E i \in T : /\ pc[i] = "running" /\ beh[i] = "fail"
                       /\ pc' = [pc EXCEPT ![i] = "done"]
                       /\ egerr' = (IF egerr = 0 THEN i ELSE egerr)
                       /\ ctxc' = TRUE
                       /\ rq' = OnTExit(OnTFail(rq, [i |-> i]), [i |-> i])
                       /\ hist' = Append(hist, [op |-> "fail", i |-> i]) /\ UNCHANGED <<beh, rdy, seen, term, sigpc, sig, announced, sret, heldT>>

T_Early == \E i \in T : /\ pc[i] = "running" /\ beh[i] = "early"
                        /\ pc' = [pc EXCEPT ![i] = "done"] /\ rq' = OnTExit(OnTEarly(rq, [i |-> i]), [i |-> i])
                        /\ hist' = Append(hist, [op |-> "early", i |-> i]) /\ UNCHANGED <<beh, rdy, seen, term, ctxc, egerr, sigpc, sig, announced, sret, heldT>>

\* the task sees ctx.Done() and reads terminate()
T_Obs == \E i \in T : /\ pc[i] = "running" /\ ctxc
                      /\ pc' = [pc EXCEPT ![i] = "stopping"]
                      /\ heldT' = (IF beh[i] = "slow" THEN heldT \cup {i} ELSE heldT)
                      /\ rq' = (LET r1 == OnTObs(rq, [i |-> i, term |-> term]) IN IF beh[i] = "slow" THEN OnHold(r1, [i |-> i]) ELSE r1)
                      /\ UNCHANGED <<beh, rdy, seen, term, ctxc, egerr, sigpc, sig, announced, sret, hist>>

T_Stop == \E i \in T : /\ pc[i] = "stopping" /\ i \notin heldT
                       /\ pc' = [pc EXCEPT ![i] = "done"] /\ rq' = OnTExit(rq, [i |-> i]) /\ UNCHANGED <<beh, rdy, seen, term, ctxc, egerr, sigpc, sig, announced, sret, heldT, hist>>

\* signal task: select { ctx.Done ; sig }
Sig_Recv == /\ sigpc = "got" /\ sigpc' = "set" /\ UNCHANGED <<beh, pc, rdy, seen, term, ctxc, egerr, sig, announced, sret, heldT, rq, hist>>
Sig_Set  == /\ sigpc = "set" /\ term' = (sig = "term") /\ sigpc' = "cancel" /\ UNCHANGED <<beh, pc, rdy, seen, ctxc, egerr, sig, announced, sret, heldT, rq, hist>>
Sig_Cancel == /\ sigpc = "cancel" /\ ctxc' = TRUE /\ sigpc' = "done" /\ UNCHANGED <<beh, pc, rdy, seen, term, egerr, sig, announced, sret, heldT, rq, hist>>
Sig_CtxDone == /\ sigpc = "wait" /\ ctxc /\ sigpc' = "done" /\ UNCHANGED <<beh, pc, rdy, seen, term, ctxc, egerr, sig, announced, sret, heldT, rq, hist>>

\* readiness goroutines and the announcer
R_Seen == \E i \in T : /\ rdy[i] /\ ~seen[i] /\ seen' = [seen EXCEPT ![i] = TRUE] /\ UNCHANGED <<beh, pc, rdy, term, ctxc, egerr, sigpc, sig, announced, sret, heldT, rq, hist>>
R_Announce == /\ ~announced /\ \A i \in T : seen[i]
              /\ announced' = TRUE /\ rq' = OnNReady(rq, [x |-> 0]) /\ UNCHANGED <<beh, pc, rdy, seen, term, ctxc, egerr, sigpc, sig, sret, heldT, hist>>

AllDone == (\A i \in T : pc[i] = "done") /\ sigpc = "done"
Serve_Ret == /\ sret = "none" /\ AllDone
             /\ sret' = (IF egerr # 0 THEN "err" ELSE "nil")
             /\ rq' = OnSRet(rq, [err |-> egerr # 0, first |-> egerr]) /\ UNCHANGED <<beh, pc, rdy, seen, term, ctxc, egerr, sigpc, sig, announced, heldT, hist>>

Internal == T_Run \/ T_Ready \/ T_Fail \/ T_Early \/ T_Obs \/ T_Stop \/ Sig_Recv \/ Sig_Set \/ Sig_Cancel \/ Sig_CtxDone
            \/ R_Seen \/ R_Announce \/ Serve_Ret
Quiescent == ~ENABLED Internal

E_Signal == /\ sig # "none" /\ sigpc = "wait" /\ ~ctxc
            /\ sigpc' = "got" /\ rq' = OnSignal(rq, [term |-> sig = "term"])
            /\ hist' = Append(hist, [op |-> "signal", sig |-> sig]) /\ UNCHANGED <<beh, pc, rdy, seen, term, ctxc, egerr, sig, announced, sret, heldT>>
E_Release == \E i \in heldT : /\ Quiescent /\ heldT' = heldT \ {i}
                              /\ rq' = OnRelease(OnSQuiet(rq, [x |-> 0]), [i |-> i])
                              /\ hist' = Append(hist, [op |-> "release", i |-> i]) /\ UNCHANGED <<beh, pc, rdy, seen, term, ctxc, egerr, sigpc, sig, announced, sret>>
E_Quiet == /\ Quiescent /\ rq' = OnSQuiet(rq, [x |-> 0]) /\ rq' # rq /\ UNCHANGED <<beh, pc, rdy, seen, term, ctxc, egerr, sigpc, sig, announced, sret, heldT, hist>>

Next == Internal \/ E_Signal \/ E_Release \/ E_Quiet
Spec == Init /\ [][Next]_vars

Req == rq.bad = {}
\* goroutine-structure lemmas
NoReturnBeforeTasks == sret # "none" => \A i \in T : pc[i] = "done"
Emit == (Quiescent /\ heldT = {}) => PrintT(ToJson([beh |-> beh, sig |-> sig, h |-> hist, sret |-> sret]))
=============================================================================
