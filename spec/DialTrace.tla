----------------------------- MODULE DialTrace -----------------------------
(* Requirement trace validation for system.Dialer: runs the DialReq monitor  *)
(* over events recorded from the real Dialer (trace.ndjson, many scenarios   *)
(* concatenated; "reset" starts one). Deterministic, linear.                 *)
EXTENDS Integers, Sequences, FiniteSets, TLC, Json

CONSTANTS MaxAttempts, DelayStep, MaxDelay
INSTANCE DialReq

Trace == ndJsonDeserialize("trace.ndjson")

VARIABLES l, m, sid
tvars == <<l, m, sid>>

Step(mm, e) ==
  CASE e.ev = "dial"     -> OnDDial(mm, e)
    [] e.ev = "fn"       -> OnDFn(mm, e)
    [] e.ev = "done"     -> OnDDone(mm, e)
    [] e.ev = "sock"     -> OnDSock(mm, e)
    [] e.ev = "close"    -> OnDClose(mm, e)
    [] e.ev = "auto_get" -> OnDGet(mm, e)
    [] e.ev = "auto_set" -> OnDSet(mm, e)
    [] e.ev = "cancel"   -> OnDCancel(mm, e)
    [] e.ev = "advance"  -> OnDAdvance(mm, e)
    [] e.ev = "ret"      -> OnDRet(mm, e)
    [] e.ev = "leak"     -> DFlag(mm, "c10-c11-goroutine-leak")
    [] e.ev = "hang"     -> DFlag(mm, "c10-dial-did-not-return")
    [] e.ev = "panic"    -> DFlag(mm, "panic")
    [] OTHER             -> mm

TInit == l = 1 /\ m = DReqInit(TRUE, TRUE) /\ sid = ""

TNext ==
  /\ l <= Len(Trace)
  /\ LET e == Trace[l] IN
     IF e.ev = "reset"
     THEN m' = DReqInit(e.adv, e.initauto) /\ sid' = e.id
     ELSE LET m2 == Step(m, e) fresh == m2.bad \ m.bad IN
          /\ m' = m2 /\ sid' = sid
          /\ \A c \in fresh : PrintT(ToJson([viol |-> c, id |-> sid, line |-> l, t |-> e.t]))
  /\ l' = l + 1

TSpec == TInit /\ [][TNext]_tvars
Consumed == TLCGet("stats").diameter - 1 = Len(Trace)
=============================================================================
