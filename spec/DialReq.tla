------------------------------ MODULE DialReq ------------------------------
(***************************************************************************)
(* REQUIREMENT LAYER for system.Dialer (C10 re-dial policy, C11 cleanup    *)
(* and IPv6 autoconfiguration), as a deterministic monitor over observable *)
(* events: DialFunc / dial() attempts with their outcome class and virtual *)
(* time, task invocations and their outcome class, cleanup closures,       *)
(* socket close, State.IPv6Autoconf / SetIPv6Autoconf calls, cancellation, *)
(* time advance, Dial's return. Shared by Dialer.tla (Impl => Req) and     *)
(* DialTrace.tla (verdict on recorded executions).                         *)
(***************************************************************************)
EXTENDS Integers, Sequences, FiniteSets

CONSTANTS MaxAttempts,  \* 50
          DelayStep,    \* 250 ms
          MaxDelay      \* 3000 ms

Recoverable(c) == c \in {"lnr", "link", "sys"}
Min2(a, b) == IF a < b THEN a ELSE b
\* wait before retry attempt i (i = 0, 1, 2, ...)
WaitBefore(i) == Min2(i * DelayStep, MaxDelay)

DReqInit(advertise, initAuto) ==
  [ adv     |-> advertise,
    auto0   |-> initAuto,   \* autoconf value before Dial was called
    sysctl  |-> initAuto,   \* current value, tracked from successful Set calls
    saved   |-> initAuto,   \* value read by the last successful Get
    open    |-> 0,          \* connection handed to the task (0 = none)
    socks   |-> {},         \* sockets opened by dial() and not yet closed
    cleaned |-> {},
    closedS |-> {},
    first   |-> TRUE,       \* no dial attempt yet
    retry   |-> -1,         \* index of the next retry attempt (-1: not in the retry loop)
    due     |-> -1,         \* time at which that attempt must be made
    cause   |-> "",         \* error class that must end Dial ("" = none)
    mustErr |-> FALSE,      \* a non-recoverable cause was seen: Dial must return an error
    okNil   |-> FALSE,      \* the task returned nil / canceled: Dial must return nil
    rstErr  |-> FALSE,      \* a restore failed with an error that is not tolerated: Dial must report it and stop
    att     |-> [sock |-> FALSE, get |-> "none", set |-> "none"],   \* what the current dial attempt has done so far
    tolNow  |-> FALSE,      \* the restore of the connection cleaned up last failed with a tolerated error (no dial since)
    tolerated |-> FALSE,    \* the last restore failed with a tolerated error
    cancelAt|-> -1,
    retAt   |-> -1,
    nHeld   |-> 0,
    bad     |-> {} ]

DFlag(m, s) == [m EXCEPT !.bad = @ \cup {s}]

\* a failed attempt (first dial, or a failed retry) at time t
FailedAttempt(m, cls, t) ==
  IF m.retry = -1
  THEN \* first dial (or the attempt follows a task error): classification decides
       IF Recoverable(cls) THEN [m EXCEPT !.retry = 0, !.due = t]
       ELSE [m EXCEPT !.mustErr = TRUE, !.cause = cls]
  ELSE \* inside the retry loop every error is retried, whatever its class
       IF m.retry + 1 >= MaxAttempts
       THEN [m EXCEPT !.mustErr = TRUE, !.cause = "exhausted", !.retry = MaxAttempts, !.due = -1]
       ELSE [m EXCEPT !.retry = @ + 1, !.due = t + WaitBefore(m.retry + 1)]

\* "disabled only while a connection is held": checked whenever the dialer is
\* between connections (after a cleanup, before time passes, at return)
DInv(m) == IF m.adv /\ m.sysctl = FALSE /\ m.auto0 = TRUE /\ m.open = 0 /\ m.socks = {} /\ ~m.tolerated
           THEN DFlag(m, "c11-autoconf-disabled-without-connection") ELSE m

\* dial(): listen, then (advertise mode only) read the autoconfiguration value and disable it; a permission error on
\* disabling is tolerated, any other failure of a step fails the attempt (and closes the socket); nothing else does
AttemptOK(m) == /\ m.att.sock
                /\ (m.adv => m.att.get = "ok" /\ m.att.set \in {"ok", "perm"})
AttemptFails(m) == ~m.att.sock \/ (m.adv /\ (m.att.get = "fail" \/ m.att.set = "other"))
OnDDial(m, e) ==      \* one dial attempt returned e.res at e.t (k > 0 iff ok)
  LET m1 == IF m.retAt # -1 THEN DFlag(m, "c10-dial-after-return")
            ELSE IF e.res = "nilctx" THEN DFlag(m, "c11-dial-returned-neither-a-connection-nor-an-error")
            ELSE IF e.res = "ok" /\ m.adv /\ m.att.sock /\ m.att.set = "none" /\ m.att.get # "fail"
                 THEN DFlag(m, "c11-connection-opened-without-disabling-autoconf")
            ELSE IF (e.res = "ok" /\ AttemptFails(m)) \/ (e.res # "ok" /\ AttemptOK(m))
                 THEN DFlag(m, "c11-dial-result-does-not-follow-from-its-steps")
            ELSE IF m.open # 0 THEN DFlag(m, "c11-dial-while-connection-open")
            ELSE IF e.res # "ok" /\ m.socks # {} THEN DFlag(m, "c11-socket-left-open-by-failed-dial")
            ELSE IF e.res = "ok" /\ m.socks # {e.k} THEN DFlag(m, "c11-connection-without-its-socket")
            ELSE IF m.rstErr THEN DFlag(m, "c11-restore-error-not-reported")
            ELSE IF m.mustErr THEN DFlag(m, "c10-dial-after-unrecoverable-error")
            ELSE IF m.okNil THEN DFlag(m, "c10-dial-after-task-finished")
            ELSE IF ~m.first /\ m.retry = -1 THEN DFlag(m, "c10-unexpected-dial")
            ELSE IF m.retry >= MaxAttempts THEN DFlag(m, "c10-more-than-max-attempts")
            ELSE IF m.retry >= 0 /\ m.cancelAt = -1 /\ e.t # m.due THEN DFlag(m, "c10-backoff-wait-wrong")
            ELSE m
      m2 == [m1 EXCEPT !.first = FALSE, !.tolNow = FALSE, !.att = [sock |-> FALSE, get |-> "none", set |-> "none"]]
  IN IF e.res = "ok"
     THEN [m2 EXCEPT !.open = e.k, !.retry = -1, !.due = -1]
     ELSE FailedAttempt(m2, e.res, e.t)

OnDFn(m, e) ==        \* the task returned e.res (class) at e.t on connection e.k
  LET m1 == IF e.k # m.open THEN DFlag(m, "c11-task-on-wrong-connection") ELSE m IN
  IF e.res \in {"nil", "canceled"} THEN [m1 EXCEPT !.okNil = TRUE]
  ELSE IF Recoverable(e.res) THEN [m1 EXCEPT !.retry = 0, !.due = e.t]
  ELSE [m1 EXCEPT !.mustErr = TRUE, !.cause = e.res]

OnDDone(m, e) ==      \* cleanup closure of connection e.k ran
  LET m1 == IF e.k \in m.cleaned THEN DFlag(m, "c11-cleanup-twice")
            ELSE IF e.k # m.open THEN DFlag(m, "c11-cleanup-of-wrong-connection")
            ELSE m IN
  DInv([m1 EXCEPT !.cleaned = @ \cup {e.k}, !.open = 0])

OnDSock(m, e)  == LET m1 == IF m.socks # {} \/ m.open # 0 THEN DFlag(m, "c11-socket-opened-while-another-is-open") ELSE m IN
                  [m1 EXCEPT !.socks = @ \cup {e.s}, !.att.sock = TRUE]
OnDClose(m, e) ==
  LET m1 == IF e.s \in m.closedS THEN DFlag(m, "c11-socket-closed-twice")
            ELSE IF e.s \notin m.socks THEN DFlag(m, "c11-close-of-unknown-socket") ELSE m IN
  [m1 EXCEPT !.socks = @ \ {e.s}, !.closedS = @ \cup {e.s}]

OnDGet(m, e) ==
  LET m1 == IF ~m.adv THEN DFlag(m, "c11-monitor-mode-touched-autoconf") ELSE m IN
  IF e.res = "ok" THEN [m1 EXCEPT !.saved = e.val, !.att.get = "ok"] ELSE [m1 EXCEPT !.att.get = "fail"]      \* the attempt fails; OnDDial classifies it

\* e.phase = "disable" (from dial) or "restore" (from the cleanup closure)
OnDSet(m, e) ==
  LET m1 == IF ~m.adv THEN DFlag(m, "c11-monitor-mode-touched-autoconf") ELSE m IN
  IF e.phase = "disable"
  THEN LET m2 == [(IF e.val # FALSE THEN DFlag(m1, "c11-autoconf-not-disabled") ELSE m1)
                      EXCEPT !.att.set = IF e.res \in {"ok", "perm"} THEN e.res ELSE "other"] IN
       IF e.res = "ok" THEN [m2 EXCEPT !.sysctl = FALSE]
       ELSE m2      \* "perm" is tolerated (the attempt goes on); anything else fails the attempt
  ELSE LET m2 == IF e.val # m.saved THEN DFlag(m1, "c11-autoconf-restored-to-wrong-value") ELSE m1 IN
       IF e.res = "ok" THEN [m2 EXCEPT !.sysctl = e.val]
       ELSE IF e.res \in {"perm", "notexist"} THEN [m2 EXCEPT !.tolerated = TRUE, !.tolNow = TRUE]      \* sticky
       ELSE [m2 EXCEPT !.mustErr = TRUE, !.cause = "autoconf-restore", !.tolerated = TRUE, !.rstErr = TRUE]

OnDCancel(m, e) == IF m.cancelAt = -1 THEN [m EXCEPT !.cancelAt = e.t] ELSE m
OnDHold(m, e)    == [m EXCEPT !.nHeld = @ + 1]
OnDRelease(m, e) == [m EXCEPT !.nHeld = IF @ > 0 THEN @ - 1 ELSE 0]

\* time is about to pass from e.t to e.to (quiescent point)
OnDAdvance(m0, e) ==
  LET m == DInv(m0) IN
  IF m.retAt # -1 \/ m.nHeld > 0 THEN m
  ELSE IF m.cancelAt # -1 THEN DFlag(m, "c10-stop-not-prompt")
  ELSE IF m.mustErr \/ m.okNil THEN DFlag(m, "c10-return-not-prompt")
  ELSE IF m.open # 0 THEN m                                     \* the task is running
  ELSE IF m.retry >= 0 /\ m.due # -1 /\ e.to > m.due THEN DFlag(m, "c10-retry-attempt-missed")
  ELSE IF m.retry = -1 /\ ~m.first THEN DFlag(m, "c10-idle-without-connection")
  ELSE m

OnDRet(m, e) ==       \* Dial returned e.res in {"nil", "err"}
  LET m1 == IF m.retAt # -1 THEN DFlag(m, "returned-twice")
            ELSE IF m.open # 0 THEN DFlag(m, "c11-return-without-cleanup")
            ELSE IF m.socks # {} THEN DFlag(m, "c11-return-with-socket-open")
            ELSE IF m.rstErr /\ e.res # "err" THEN DFlag(m, "c11-restore-error-not-reported")     \* (a stop request is no excuse)
            ELSE IF m.mustErr /\ e.res # "err" /\ m.cancelAt = -1 THEN DFlag(m, "c10-error-not-reported")
            ELSE IF ~m.mustErr /\ e.res = "err" /\ m.tolNow THEN DFlag(m, "c11-tolerated-restore-error-reported")
            ELSE IF ~m.mustErr /\ e.res = "err" THEN DFlag(m, "c10-unexpected-error")
            ELSE IF ~m.mustErr /\ ~m.okNil /\ m.cancelAt = -1 THEN DFlag(m, "c10-returned-without-cause")
            ELSE IF m.adv /\ m.sysctl # m.auto0 /\ ~m.tolerated THEN DFlag(m, "c11-autoconf-not-restored")
            ELSE m
  IN [m1 EXCEPT !.retAt = e.t]

=============================================================================
