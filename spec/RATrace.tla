------------------------------- MODULE RATrace -------------------------------
(* C01 / C03 validation. Each line: a document the real parser accepted, its  *)
(* elaboration as recorded from the real parser (out.elab), the system state  *)
(* injected (sys) and, per interface, the RA built (ras). C02 separately      *)
(* checks out.elab = Elab(doc); C01 also judges the RA against the document   *)
(* itself, BuildRA(Elab(doc)), so that a value derived wrongly while parsing  *)
(* (the PREF64 lifetime) is a C01 violation in its own right.                 *)
EXTENDS Config, RA, TLC, Json

Trace == ndJsonDeserialize("trace.ndjson")
VARIABLES l
TInit == l = 1

C01(e, i) == LET r == e.out.ras[i] el == e.out.elab.ifaces[i] want == BuildRA(el, e.sys, r.idx) IN
             IF ~el.advertise THEN "ok"
             ELSE IF r.err # want.err THEN "c01-ra-generation-failure-mismatch"
             ELSE IF r.err THEN "ok"
             ELSE IF NormRA(r.ra) # want THEN "c01-ra-content-differs-from-configuration"
             ELSE IF "doc" \in DOMAIN e /\ Accept(e.doc) /\ NormRA(r.ra) # BuildRA(Elab(e.doc).ifaces[i], e.sys, r.idx)
                  THEN "c01-ra-content-differs-from-the-configuration-document"
             ELSE IF ~r.stable THEN "c01-rebuilding-gives-a-different-ra"
             ELSE IF ~r.cfgsame THEN "c01-building-altered-the-configuration"
             ELSE IF r.misconf # Misconfigured(el, e.sys) THEN "c04-misconfiguration-report-wrong"
             ELSE "ok"
C03(e, i) == LET r == e.out.ras[i] el == e.out.elab.ifaces[i] IN
             IF ~el.advertise \/ r.err THEN "ok"
             ELSE IF ~Encodable(NormRA(r.ra)) THEN "c03-duration-outside-its-field"
             ELSE IF ~r.wire.ok THEN "c03-ra-does-not-encode"
             ELSE IF NormRA(r.wire.ra) # OnWire(NormRA(r.ra)) THEN "c03-ra-changes-on-the-wire"
             ELSE "ok"
Verdicts(e) == IF e.out.panic THEN {"c01-c03-panic"}
               ELSE IF ~e.out.accepted THEN {}
               \* one RA per configured interface, in the document's order (everything below indexes by position)
               ELSE IF Len(e.out.ras) # Len(e.out.elab.ifaces)
                       \/ ("doc" \in DOMAIN e /\ Accept(e.doc) /\ Len(e.out.ras) # Len(Elab(e.doc).ifaces))
                    THEN {"c01-c03-interface-list-differs-from-the-document"}
               ELSE UNION {{C01(e, i), C03(e, i)} : i \in 1..Len(e.out.ras)} \ {"ok"}
TNext == /\ l <= Len(Trace)
         /\ \A v \in Verdicts(Trace[l]) : PrintT(ToJson([viol |-> v, id |-> Trace[l].id, line |-> l]))
         /\ l' = l + 1
TSpec == TInit /\ [][TNext]_l
Consumed == TLCGet("stats").diameter - 1 = Len(Trace)
=============================================================================
