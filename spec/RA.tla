---------------------------------- MODULE RA ----------------------------------
(***************************************************************************)
(* C01: the router advertisement an elaborated interface configuration      *)
(* calls for, given the system state; C03: what survives the wire.          *)
(* (config.Interface.RouterAdvertisement, the plugins' Apply methods,       *)
(* NewPREF64; field widths of the RA and its options.)                      *)
(* An elaborated interface is the record produced by Config!Elab (or        *)
(* recorded from the real parser); sys = [fwd, mac, addrs, routes, clock,   *)
(* addrfail, routefail] with clock in whole seconds after the epoch.        *)
(***************************************************************************)
EXTENDS Integers, Sequences, FiniteSets, Durations, Wildcards

MacStr(idx) == CASE idx = 1 -> "02:00:00:00:00:01" [] idx = 2 -> "02:00:00:00:00:02" [] idx = 3 -> "02:00:00:00:00:03"
                 [] idx = 4 -> "02:00:00:00:00:04" [] idx = 5 -> "02:00:00:00:00:05" [] OTHER -> "02:00:00:00:00:06"

\* time left until epoch + L at clock reading dt (seconds after the epoch), clamped at zero
Remain(L, dt) == IF dt > L.s \/ (dt = L.s /\ L.ms = 0 /\ L.ns = 0) THEN DZero ELSE [L EXCEPT !.s = L.s - dt]
Life(L, deprecated, dt) == IF deprecated THEN Remain(L, dt) ELSE L

RECURSIVE FlatR(_)
FlatR(ss) == IF ss = <<>> THEN <<>> ELSE Head(ss) \o FlatR(Tail(ss))

\* options contributed by one plugin; <<[k |-> "err"]>> marks a failure of RA generation
PluginOpts(p, sys, idx) ==
  CASE p.k = "prefix" ->
         IF p.wild /\ sys.addrfail THEN <<[k |-> "err"]>>
         ELSE LET nets == IF p.wild THEN ReqPrefixes(sys.addrs) ELSE <<[h |-> p.h, bits |-> p.bits]>> IN
              [i \in 1..Len(nets) |-> [k |-> "prefix", h |-> nets[i].h, bits |-> nets[i].bits, onlink |-> p.onlink, auto |-> p.auto,
                                       valid |-> Life(p.valid, p.deprecated, sys.clock), pref |-> Life(p.pref, p.deprecated, sys.clock)]]
    [] p.k = "route" ->
         IF p.wild /\ sys.routefail THEN <<[k |-> "err"]>>
         ELSE LET nets == IF p.wild THEN ReqRoutes(sys.routes) ELSE <<[h |-> p.h, bits |-> p.bits]>> IN
              [i \in 1..Len(nets) |-> [k |-> "route", h |-> nets[i].h, bits |-> nets[i].bits, pref |-> p.preference,
                                       life |-> Life(p.life, p.deprecated, sys.clock)]]
    [] p.k = "rdnss" ->
         IF ~p.wild THEN <<[k |-> "rdnss", life |-> p.life, sh |-> p.sh]>>
         ELSE IF sys.addrfail \/ ReqBestDNS(sys.addrs) = <<>> THEN <<[k |-> "err"]>>
         ELSE <<[k |-> "rdnss", life |-> p.life, sh |-> ReqBestDNS(sys.addrs) \o p.sh]>>
    [] p.k = "dnssl"  -> <<[k |-> "dnssl", life |-> p.life, names |-> p.names]>>
    [] p.k = "mtu"    -> <<[k |-> "mtu", mtu |-> p.mtu]>>
    [] p.k = "lla"    -> IF sys.mac THEN <<[k |-> "lla", dir |-> "source", addr |-> MacStr(idx)]>> ELSE <<>>
    [] p.k = "cp"     -> <<[k |-> "cp", uri |-> p.uri]>>
    [] p.k = "pref64" -> <<[k |-> "pref64", pfx |-> p.pfx, life |-> p.life]>>

\* C01: the RA (normalised) for interface e at position idx, or the failure marker
BuildRA(e, sys, idx) ==
  LET opts == FlatR([i \in 1..Len(e.plugins) |-> PluginOpts(e.plugins[i], sys, idx)]) IN
  IF \E i \in 1..Len(opts) : opts[i].k = "err" THEN [err |-> TRUE]
  ELSE [err |-> FALSE, hl |-> e.hop, m |-> e.managed, o |-> e.other, pref |-> e.preference,
        life |-> IF sys.fwd THEN e.life ELSE DZero, reach |-> e.reach, retrans |-> e.retrans, opts |-> opts]
Misconfigured(e, sys) == ~sys.fwd /\ ~IsZero(e.life)

\* the observed RA in the same normal form (address text dropped: numeric groups are compared)
NormOpt(o) ==
  CASE o.k = "prefix" -> [k |-> "prefix", h |-> o.h, bits |-> o.bits, onlink |-> o.onlink, auto |-> o.auto, valid |-> o.valid, pref |-> o.pref]
    [] o.k = "route"  -> [k |-> "route", h |-> o.h, bits |-> o.bits, pref |-> o.pref, life |-> o.life]
    [] o.k = "rdnss"  -> [k |-> "rdnss", life |-> o.life, sh |-> o.sh]
    [] o.k = "dnssl"  -> [k |-> "dnssl", life |-> o.life, names |-> o.names]
    [] o.k = "mtu"    -> [k |-> "mtu", mtu |-> o.mtu]
    [] o.k = "lla"    -> [k |-> "lla", dir |-> o.dir, addr |-> o.addr]
    [] o.k = "cp"     -> [k |-> "cp", uri |-> o.uri]
    [] o.k = "pref64" -> [k |-> "pref64", pfx |-> o.pfx, life |-> o.life]
    [] OTHER          -> o
NormRA(ra) == [err |-> FALSE, hl |-> ra.hl, m |-> ra.m, o |-> ra.o, pref |-> ra.pref, life |-> ra.life, reach |-> ra.reach,
               retrans |-> ra.retrans, opts |-> [i \in 1..Len(ra.opts) |-> NormOpt(ra.opts[i])]]

---------------------------------------------------------------------------
(* C03 *)
NonNegLeq(d, hi) == ~IsNeg(d) /\ DLeq(d, hi)
EncodableOpt(o) ==
  CASE o.k = "prefix" -> NonNegLeq(o.valid, DInf) /\ NonNegLeq(o.pref, DInf) /\ o.bits \in 0..128
    [] o.k = "route"  -> NonNegLeq(o.life, DInf) /\ o.bits \in 0..128
    [] o.k \in {"rdnss", "dnssl"} -> NonNegLeq(o.life, DInf)
    [] o.k = "pref64" -> NonNegLeq(o.life, Secs(65528))
    [] OTHER -> TRUE
Encodable(ra) == /\ NonNegLeq(ra.life, Secs(65535)) /\ NonNegLeq(ra.reach, Secs(4294967)) /\ NonNegLeq(ra.retrans, Secs(4294967))
                 /\ \A i \in 1..Len(ra.opts) : EncodableOpt(ra.opts[i])
Trunc8(d) == IF IsFin(d) THEN Fin((d.s \div 8) * 8, 0) ELSE d
WireOpt(o) ==
  CASE o.k = "prefix" -> [o EXCEPT !.valid = TruncToSec(@), !.pref = TruncToSec(@)]
    \* DecoderDropsPartialByte: the pinned mdlayher/ndp v1.1.0 *decoder* copies only bits/8 whole bytes of a route
    \* prefix (the encoder writes all of them), so a route whose length is not a multiple of 8 comes back with its
    \* last partial byte cleared. Named here so that it is not mistaken for a change made by CoreRAD.
    [] o.k = "route"  -> [o EXCEPT !.life = TruncToSec(@), !.h = Masked(@, (o.bits \div 8) * 8)]
    [] o.k \in {"rdnss", "dnssl"} -> [o EXCEPT !.life = TruncToSec(@)]
    [] o.k = "pref64" -> [o EXCEPT !.life = Trunc8(@)]
    [] OTHER -> o
\* what decoding the encoded RA must return: the same advertisement up to truncation to each field's unit
OnWire(n) == [n EXCEPT !.life = TruncToSec(@), !.reach = TruncToMs(@), !.retrans = TruncToMs(@),
                       !.opts = [i \in 1..Len(@) |-> WireOpt(@[i])]]
=============================================================================
