------------------------------ MODULE ObsTrace ------------------------------
(* C17: metrics and the debug API mirror the RA that would be sent now, at    *)
(* any lifecycle point, and never crash. Each line: a document (abstract),    *)
(* the system state, the lifecycle point ("never" = no interface has been     *)
(* prepared yet, "up") and what a Prometheus collection and the HTTP handler  *)
(* answered. The elaborated interfaces are Config!Elab(doc) (C02 binds the    *)
(* real parser to it); the expected RA is RA!BuildRA.                         *)
EXTENDS Config, RA, TLC, Json

Trace == ndJsonDeserialize("trace.ndjson")
VARIABLES l
TInit == l = 1

\* before Prepare: no hardware address known, wildcards cannot be expanded
SysAt(e) == IF e.lifecycle = "up" THEN e.sys
            ELSE [e.sys EXCEPT !.mac = FALSE, !.addrfail = TRUE, !.routefail = TRUE]
Want(e, i) == BuildRA(Elab(e.doc).ifaces[i], SysAt(e), i)
Ifs(e) == Elab(e.doc).ifaces
AdvIdx(e) == {i \in 1..Len(Ifs(e)) : Ifs(e)[i].advertise}
AnyErr(e) == e.fwderr \/ \E i \in AdvIdx(e) : Want(e, i).err
\* deprecated stanzas read the clock, which is only injected by Prepare
ClockFree(e) == e.lifecycle = "up" \/ \A i \in AdvIdx(e) : \A j \in 1..Len(Ifs(e)[i].plugins) :
                   ~(Ifs(e)[i].plugins[j].k \in {"prefix", "route"} /\ Ifs(e)[i].plugins[j].deprecated)

B(b) == IF b THEN 1 ELSE 0
Smp(name, ifi, h, bits, hs, names, details, flag, d) ==
  [name |-> name, ifi |-> ifi, h |-> h, bits |-> bits, hs |-> hs, names |-> names, details |-> details, flag |-> flag, d |-> d]
OptSamples(ifi, o) ==
  CASE o.k = "prefix" -> {Smp("corerad_advertiser_prefix_autonomous", ifi, o.h, o.bits, <<>>, <<>>, "", B(o.auto), DZero),
                          Smp("corerad_advertiser_prefix_on_link", ifi, o.h, o.bits, <<>>, <<>>, "", B(o.onlink), DZero),
                          Smp("corerad_advertiser_prefix_valid_seconds", ifi, o.h, o.bits, <<>>, <<>>, "", 0, o.valid),
                          Smp("corerad_advertiser_prefix_preferred_seconds", ifi, o.h, o.bits, <<>>, <<>>, "", 0, o.pref)}
    [] o.k = "route"  -> {Smp("corerad_advertiser_route_lifetime_seconds", ifi, o.h, o.bits, <<>>, <<>>, "", 0, o.life)}
    [] o.k = "rdnss"  -> {Smp("corerad_advertiser_rdnss_lifetime_seconds", ifi, <<>>, 0, o.sh, <<>>, "", 0, o.life)}
    [] o.k = "dnssl"  -> {Smp("corerad_advertiser_dnssl_lifetime_seconds", ifi, <<>>, 0, <<>>, o.names, "", 0, o.life)}
    [] OTHER -> {}
IfaceSamples(e, i) ==
  LET el == Ifs(e)[i] g(n, b) == Smp(n, el.name, <<>>, 0, <<>>, <<>>, "", B(b), DZero) IN
  {g("corerad_interface_advertising", el.advertise), g("corerad_interface_monitoring", el.monitor),
   g("corerad_interface_autoconfiguration", e.sys.auto), g("corerad_interface_forwarding", e.sys.fwd)}
  \cup (IF el.advertise
        THEN LET w == Want(e, i) IN
             UNION {OptSamples(el.name, w.opts[j]) : j \in 1..Len(w.opts)}
             \cup (IF Misconfigured(el, e.sys) THEN {Smp("corerad_advertiser_misconfiguration", el.name, <<>>, 0, <<>>, <<>>, "interface_not_forwarding", 1, DZero)} ELSE {})
        ELSE {})
WantSamples(e) == UNION {IfaceSamples(e, i) : i \in 1..Len(Ifs(e))}
\* two options of one kind with the same label set cannot both be exported (known finding D12): detect them
SameLabels(e) == \E i \in AdvIdx(e) : LET w == Want(e, i) IN ~w.err /\
            \E a, b \in 1..Len(w.opts) : a # b /\ w.opts[a].k = w.opts[b].k /\
               CASE w.opts[a].k \in {"prefix", "route"} -> w.opts[a].h = w.opts[b].h /\ w.opts[a].bits = w.opts[b].bits
                 [] w.opts[a].k = "rdnss" -> w.opts[a].sh = w.opts[b].sh
                 [] w.opts[a].k = "dnssl" -> w.opts[a].names = w.opts[b].names
                 [] OTHER -> FALSE

\* the API view of an RA: the same advertisement with lifetimes in whole seconds and timers in milliseconds
ApiOpt(o) == CASE o.k = "prefix" -> [o EXCEPT !.valid = TruncToSec(@), !.pref = TruncToSec(@)]
               [] o.k \in {"route", "rdnss", "dnssl", "pref64"} -> [o EXCEPT !.life = TruncToSec(@)]
               [] OTHER -> o
ApiView(w) == [w EXCEPT !.life = TruncToSec(@), !.reach = TruncToMs(@), !.retrans = TruncToMs(@),
                        !.opts = [j \in 1..Len(@) |-> ApiOpt(@[j])]]

Obs(e) == {e.out.gather.samples[k] : k \in 1..Len(e.out.gather.samples)}
Verdicts(e) ==
  IF e.out.panic THEN {"c17-panic"}
  ELSE IF ~e.out.accepted THEN {}
  ELSE LET gate == {IF e.out.http.metrics = 404 /\ e.doc.debug.addr = "ok" /\ e.doc.debug.prometheus THEN "c17-metrics-route-missing" ELSE "ok",
                    IF e.out.http.metrics # 404 /\ ~(e.doc.debug.addr = "ok" /\ e.doc.debug.prometheus) THEN "c17-metrics-served-although-disabled" ELSE "ok",
                    IF e.out.http.pprof # (IF e.doc.debug.addr = "ok" /\ e.doc.debug.pprof THEN 200 ELSE 404) THEN "c17-pprof-gating-wrong" ELSE "ok",
                    IF e.out.http.root # 200 \/ e.out.http.nope # 404 THEN "c17-basic-routes-wrong" ELSE "ok"}
           metrics == IF e.autoerr THEN (IF e.out.gather.ok THEN {"c17-scrape-succeeded-although-a-state-read-fails"} ELSE {})
                      ELSE IF AnyErr(e) THEN (IF e.out.gather.ok THEN {"c17-scrape-succeeded-although-ra-generation-fails"} ELSE {})
                      ELSE IF ~ClockFree(e) THEN {}
                      ELSE IF ~e.out.gather.ok THEN (IF SameLabels(e) THEN {"KF-c17-duplicate-label-set"} ELSE {"c17-scrape-failed"})
                      ELSE IF Obs(e) # WantSamples(e) THEN {"c17-metrics-differ-from-the-ra"} ELSE {}
           api == IF AnyErr(e) THEN (IF e.out.http.api = 200 THEN {"c17-api-answered-although-ra-generation-fails"} ELSE {})
                  ELSE IF e.out.http.api # 200 THEN {"c17-api-failed"}
                  ELSE IF Len(e.out.api) # Len(Ifs(e)) THEN {"c17-api-interface-list-wrong"}
                  ELSE IF ~ClockFree(e) THEN {}
                  ELSE UNION {LET it == e.out.api[i] el == Ifs(e)[i] IN
                              IF it.name # el.name \/ it.advertise # el.advertise \/ it.has # el.advertise THEN {"c17-api-interface-entry-wrong"}
                              ELSE IF el.advertise /\ NormRA(it.ra) # ApiView(Want(e, i)) THEN {"c17-api-differs-from-the-ra"} ELSE {}
                              : i \in 1..Len(Ifs(e))}
       IN (gate \cup metrics \cup api) \ {"ok"}
TNext == /\ l <= Len(Trace)
         /\ \A v \in Verdicts(Trace[l]) : PrintT(ToJson([viol |-> v, id |-> Trace[l].id, line |-> l]))
         /\ l' = l + 1
TSpec == TInit /\ [][TNext]_l
Consumed == TLCGet("stats").diameter - 1 = Len(Trace)
=============================================================================
