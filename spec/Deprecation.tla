----------------------------- MODULE Deprecation -----------------------------
(* C16: deprecated prefixes and routes count down to zero at a fixed deadline *)
(* (Prefix.lifetimes, Route.lifetime in internal/plugin/plugin.go).           *)
(* Time is an integer in an arbitrary unit (the harness runs each vector at   *)
(* 1 s and at 1 ns per unit).                                                 *)
EXTENDS Integers, Sequences

\* lifetime advertised at clock reading t for a deadline epoch + L
Remaining(epoch, L, t) == IF t >= epoch + L THEN 0 ELSE epoch + L - t

\* what one RA built at reading t carries: <<valid, preferred, route>>
AdvAt(epoch, valid, pref, rl, deprecated, t) ==
  IF deprecated THEN <<Remaining(epoch, valid, t), Remaining(epoch, pref, t), Remaining(epoch, rl, t)>>
  ELSE <<valid, pref, rl>>

ReqLifetimes(v) == [i \in 1..Len(v.reads) |-> AdvAt(v.epoch, v.valid, v.pref, v.rl, v.deprecated, v.reads[i])]

\* lemmas the statement lists, checked by TLC over the whole domain (DeprecationMC)
NonIncreasing(s) == \A i \in 1..(Len(s) - 1) : \A c \in 1..3 : s[i+1][c] <= s[i][c]
NonNegative(s)   == \A i \in 1..Len(s) : \A c \in 1..3 : s[i][c] >= 0
PrefLeqValid(s)  == \A i \in 1..Len(s) : s[i][2] <= s[i][1]
ZeroFromDeadline(v, s) == \A i \in 1..Len(s) : /\ (v.reads[i] >= v.epoch + v.valid => s[i][1] = 0)
                                                /\ (v.reads[i] >= v.epoch + v.pref => s[i][2] = 0)
                                                /\ (v.reads[i] >= v.epoch + v.rl => s[i][3] = 0)
=============================================================================
