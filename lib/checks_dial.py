"""C11 (cleanup / autoconf) and the dialer half of C10 (re-dial policy)."""
import json, os, random, time
import vf, dial, adv
import checks_adv


def fixed_scripts():
    """Long deterministic scripts beyond the model bounds: the real 50-attempt
    budget and the full back-off ladder."""
    fail = lambda cls: {"c": "dial", "pre": cls, "get": "ok", "set": "ok", "cancel": False}
    ok = {"c": "dial", "pre": "ok", "get": "ok", "set": "ok", "cancel": False}
    out = []
    out.append({"h": [fail("lnr")] * 51, "note": "50 failed retries after a recoverable first failure"})
    out.append({"h": [fail("sys")] + [fail("other")] * 49 + [ok, {"c": "fn", "res": "nil", "restore": "ok", "cancel": False}],
                "note": "success on the very last permitted attempt"})
    out.append({"h": [ok, {"c": "fn", "res": "link", "restore": "ok", "cancel": False}] + [fail("perm")] * 50,
                "note": "task error then 50 failed retries"})
    out.append({"h": [fail("lnr")] * 14 + [{"c": "wcancel"}], "note": "cancel while waiting 3 s"})
    for n in (1, 5, 12, 13, 20):
        out.append({"h": [fail("lnr")] * n + [ok, {"c": "fn", "res": "sys", "restore": "perm", "cancel": False}] +
                         [fail("sys")] * 3 + [ok, {"c": "fn", "res": "nil", "restore": "ok", "cancel": False}],
                    "note": "ladder %d" % n})
    return out


def rand_script(rng):
    h = []
    for _ in range(rng.randrange(3, 40)):
        r = rng.random()
        if r < 0.55:
            pre = rng.choice(["lnr", "sys", "lnr", "sys", "other", "perm", "ok", "ok"])
            h.append({"c": "dial", "pre": pre, "get": rng.choice(["ok"] * 6 + ["other"]) if pre == "ok" else "ok",
                      "set": rng.choice(["ok"] * 5 + ["perm", "other"]) if pre == "ok" else "ok",
                      "cancel": rng.random() < 0.03})
            if h[-1]["get"] != "ok":
                h[-1]["set"] = "ok"
        elif r < 0.95:
            h.append({"c": "fn", "res": rng.choice(["link", "sys", "link", "sys", "nil", "canceled", "perm", "other"]),
                      "restore": rng.choice(["ok"] * 4 + ["perm", "notexist", "other"]), "cancel": rng.random() < 0.05})
        else:
            h.append({"c": "wcancel"})
    return h


def dial_check(pid, tier, replay, want):
    t0 = time.time()
    tmp = vf.mktmp("vf-%s-" % pid)
    thorough = tier == "thorough"
    seed = vf.seed()
    rng = random.Random(seed * 104729 + 11)
    mc_results, scenarios = [], []
    if replay:
        scenarios = json.load(open(replay))["scenarios"]
    else:
        depth = 6 if thorough else 4
        for adv_mode in ("TRUE", "FALSE"):
            for ia in (("TRUE", "FALSE") if adv_mode == "TRUE" else ("TRUE",)):
                name = "adv%s_auto%s" % (adv_mode[0], ia[0])
                d = depth if adv_mode == "TRUE" and ia == "TRUE" else depth - 1
                res, hs = dial.model(tmp, name, dict(Advertise=adv_mode, InitAuto=ia, Depth=d),
                                     timeout=3000 if thorough else 900)
                mc_results.append(res)
                if not res["ok"]:
                    print("MODEL-COUNTEREXAMPLE property=%s config=%s clause=%s (not a verdict)" % (pid, name, res.get("clause")))
                cap = 60000 if thorough else 2500
                if len(hs) > cap:
                    rng.shuffle(hs)
                    hs = hs[:cap]
                for i, p in enumerate(hs):
                    scenarios.append({"id": "%s-%s-%05d" % (pid, name, i), "adv": adv_mode == "TRUE",
                                      "initauto": ia == "TRUE", "h": p["h"], "src": "tlc"})
        for j, fs in enumerate(fixed_scripts()):
            for adv_mode in (True, False):
                scenarios.append({"id": "%s-fixed-%02d-%s" % (pid, j, adv_mode), "adv": adv_mode, "initauto": True,
                                  "h": fs["h"], "src": "fixed:" + fs["note"]})
        for j in range(4000 if thorough else 300):
            scenarios.append({"id": "%s-rand-%05d" % (pid, j), "adv": rng.random() < 0.8, "initauto": rng.random() < 0.7,
                              "h": rand_script(rng), "src": "random"})
    outs = dial.run(tmp, scenarios, pid)
    viols, ntr, nlines, samples = dial.validate(tmp, outs, pid)
    mine = [v for v in viols if want(v["viol"])]
    others = [v for v in viols if not want(v["viol"])]
    by_id = {s["id"]: s for s in scenarios}
    rc, shown = 0, set()
    for v in mine:
        if v["viol"] in shown and len(mine) > 20:
            continue
        shown.add(v["viol"])
        path = vf.save_replay(pid, v["id"], {"property": pid, "clause": v["viol"], "at_ms": v.get("t"),
                                             "scenarios": [by_id.get(v["id"], {"id": v["id"]})]})
        print("VIOLATION property=%s replay=%s clause=%s scenario=%s" % (pid, path, v["viol"], v["id"]))
        rc = 1
    for v in others[:5]:
        print("NOTE other-property clause=%s scenario=%s" % (v["viol"], v["id"]))
    return rc, dict(mc=mc_results, scenarios=scenarios, ntr=ntr, nlines=nlines, samples=samples, mine=mine,
                    others=others, wall=time.time() - t0)


ASSUME = [
    "the real Dialer is driven through a copy of dialer.go in which the three call targets inside dial() "
    "(lookupInterface, checkInterface, dialNDP) are renamed to harness functions; real sockets and sysctls are not used",
    "error classes are derived from the errors the real code returns (errors.As/Is), not from what was injected",
    "model constants: 3 attempts / depth 4 (quick) or 6 (thorough); the real 50-attempt budget and ladder are exercised by fixed and random scripts and judged with the real constants (50, 250 ms, 3000 ms)",
    "built with go1.26.8 for testing/synctest",
]


def c11(pid, tier, replay):
    rc, r = dial_check(pid, tier, replay, lambda c: "c11" in c or c in ("panic",))
    sc = r["scenarios"]
    cov = {"states": sum(x["states"] for x in r["mc"]) or 1, "transitions": sum(x["transitions"] for x in r["mc"]) or 1,
           "traces_validated_against_impl": r["ntr"], "samples": r["samples"] + sc[:1],
           "evaluations": len(sc),
           "distinct_nontrivial": sum(1 for s in sc if any(e.get("c") == "fn" or e.get("get", "ok") != "ok" or e.get("set", "ok") != "ok" for e in s["h"])),
           "rule": "behaviours = every outcome script of Dialer.tla to the depth bound (dial pre/get/set outcome x task outcome x restore outcome x cancel placement) for advertise mode with autoconf initially on/off and for monitor mode, plus fixed long scripts and seeded random scripts; non-trivial = the script opens a connection or fails in get/set",
           "model_checking_runs": r["mc"], "trace_lines_validated": r["nlines"],
           "violating_traces": len(r["mine"]), "other_property_notes": len(r["others"]), "exhaustive": False}
    vf.write_evidence(pid, tier, "model_checking", cov, ASSUME, r["wall"], violations=len(r["mine"]))
    print("%s %s: model states=%d, %d scripts replayed into the real Dialer, %d events validated, %d violation(s), %.0fs"
          % (pid, tier, cov["states"], len(sc), r["nlines"], len(r["mine"]), r["wall"]))
    return rc


def c10(pid, tier, replay):
    """C10 = session level (advertiser / monitor under injected faults, AdvReq)
    + dialer level (re-dial policy, DialReq)."""
    t0 = time.time()
    if replay and "h" not in json.dumps(json.load(open(replay))["scenarios"][0].get("h", "x")) and \
            "steps" in json.load(open(replay))["scenarios"][0]:
        return checks_adv.adv_check(pid, tier, replay, dict(checks_adv.PLANS["C10"], write_evidence=True))
    rc1 = 0
    cov1 = {}
    if not replay:
        rc1 = checks_adv.adv_check(pid, tier, None, checks_adv.PLANS["C10"])
        cov1 = dict(checks_adv.LAST)
    rc2, r = dial_check(pid, tier, replay, lambda c: "c10" in c or c == "panic")
    sc = r["scenarios"]
    c1 = cov1.get("cov", {})
    cov = {"states": (c1.get("states", 0) or 0) + sum(x["states"] for x in r["mc"]) or 1,
           "transitions": (c1.get("transitions", 0) or 0) + sum(x["transitions"] for x in r["mc"]) or 1,
           "traces_validated_against_impl": c1.get("traces_validated_against_impl", 0) + r["ntr"],
           "samples": (c1.get("samples") or [])[:2] + r["samples"] + sc[:1],
           "evaluations": c1.get("evaluations", 0) + len(sc),
           "distinct_nontrivial": c1.get("distinct_nontrivial", 0) + sum(1 for s in sc if len(s["h"]) >= 2),
           "rule": "SESSION: " + c1.get("rule", "") + " DIALER: every outcome script of Dialer.tla to the depth bound "
                   "(dial outcome x task outcome x cancel placement), fixed scripts for the real 50-attempt budget and "
                   "the 250 ms..3 s ladder, seeded random scripts; non-trivial = at least two scripted outcomes",
           "session_level": {k: c1.get(k) for k in ("model_checking_runs", "environment_histories", "trace_lines_validated",
                                                     "violating_traces", "model_counterexamples", "conformance_with_Advertiser_tla")},
           "dialer_level": {"model_checking_runs": r["mc"], "trace_lines_validated": r["nlines"],
                            "violating_traces": len(r["mine"])},
           "exhaustive": False}
    nviol = cov1.get("violations", 0) + len(r["mine"])
    vf.write_evidence(pid, tier, "model_checking", cov, ASSUME + cov1.get("assumptions", []), time.time() - t0,
                      violations=nviol)
    print("%s %s: dialer level: %d scripts, %d events validated, %d violation(s); total %.0fs"
          % (pid, tier, len(sc), r["nlines"], len(r["mine"]), time.time() - t0))
    return 1 if (rc1 or rc2) else 0
