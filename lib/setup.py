"""setup_cmd: regenerate the .tla files from the .tla.in sources, SANY-parse
every module, and warm the Go build cache with one overlay build per package."""
import os, subprocess, sys
sys.path.insert(0, os.path.dirname(os.path.abspath(__file__)))
import vf

def main():
    subprocess.check_call([sys.executable, os.path.join(vf.SPEC, "unch.py")])
    bad = 0
    for f in sorted(os.listdir(vf.SPEC)):
        if f.endswith(".tla"):
            ok, out = vf.sany(f[:-4])
            print("SANY %-16s %s" % (f, "ok" if ok else "FAILED"))
            if not ok:
                print(out[-1500:])
                bad += 1
    if bad:
        return 1
    # warm the build cache (compile only)
    import adv, dial
    tmp = vf.mktmp("vf-setup-")
    try:
        vf.go_test(adv.HARNESS_PKGS, "internal/corerad", "^$", tmp=tmp)
        rew = vf.rewrite_dial(tmp)
        vf.go_test(dial.PKGS, "internal/system", "^$", tmp=vf.mktmp("vf-setup-"),
                   replace={"internal/system/dialer.go": rew} if rew else None)
        print("go build cache warm")
    except vf.Infra as e:
        print("WARNING: could not warm the build cache:", e)
    return 0

if __name__ == "__main__":
    sys.exit(main())
