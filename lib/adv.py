"""Advertiser family (C04, C06-C10): exhaustive TLC runs of the
implementation-shaped model composed with the requirement monitor,
TLC-enumerated environment histories replayed into the real code under
testing/synctest, and TLC validation of the recorded traces."""
import concurrent.futures, json, os, random, re, time
import vf, advtrace

HARNESS_PKGS = {
    "internal/corerad": ["common/vf_util.go", "common/vf_ra.go", "corerad/vf_world.go", "corerad/vf_adv.go",
                         "corerad/vf_mdelay.go", "corerad/vf_verify.go"],
    "internal/system": ["system/vf_export.go"],
}

ADV_DEFAULTS = dict(MinDelay=6, MaxRADelay=1, InitCap=32, InitCount=3, MinIv=7, MaxIv=8, ChanCap=2, Retries=2,
                    BackoffUnit=1, UnicastOnly="FALSE", MonitorMode="FALSE", CfgLife=1800, Hosts='{"h1"}', Kinds="{}", MaxIn=2, MaxT=10,
                    MaxFlips=0, MaxHolds=0, WriteFaults="FALSE", LinkFaults="FALSE", AllowCancel="TRUE", Sec=1, MaxQueries=0, MaxSessions=1, FwdFaults="FALSE")
ADV_INVARIANTS = "Req TypeOK C08_Prompt C08_NothingRunsAfterReturn C09_Alive C10_NoHalfAlive C10_NoLeak"

ENV_DEFAULTS = dict(Srcs='{"unspec"}', Kinds="{}", HoldDsts="{}", FailDsts="{}", Terms="{}", MaxFlips=0, MaxEv=3,
                    MaxT=14, MinGap=1)


def _cfg(path, spec, consts, invariants):
    with open(path, "w") as f:
        f.write("SPECIFICATION %s\nCONSTANTS\n" % spec)
        for k, v in consts.items():
            f.write("  %s = %s\n" % (k, v))
        f.write("INVARIANTS %s\nCHECK_DEADLOCK FALSE\n" % invariants)


def model_check(tmp, name, overrides, timeout=1500):
    c = dict(ADV_DEFAULTS)
    c.update(overrides)
    cfg = os.path.join(tmp, "MC_%s.cfg" % name)
    _cfg(cfg, "Spec", c, ADV_INVARIANTS)
    wd = vf.mktmp("vf-mc-")
    r = vf.tlc("Advertiser", cfg, workdir=wd, timeout=timeout, heap="12g")
    res = {"config": name, "constants": c, "states": r["states"], "transitions": r["generated"],
           "ok": r["ok"], "wall_s": round(r["wall_s"], 1)}
    if not r["ok"]:
        res["violation"] = r["violation"]
        res["actions"] = re.findall(r"State \d+: <(\w+)", r["out"])
        bad = re.findall(r'bad \|-> \{"([^"]*)"', r["out"])
        res["clause"] = bad[-1] if bad else ""
    return res


def liveness_check(tmp, name, overrides, props="L_StopReturns L_FaultReturns", timeout=1500):
    """Temporal properties under fairness (FairSpec), no state constraint, small constants only."""
    c = dict(ADV_DEFAULTS)
    c.update(overrides)
    cfg = os.path.join(tmp, "LV_%s.cfg" % name)
    with open(cfg, "w") as f:
        f.write("SPECIFICATION FairSpec\nCONSTANTS\n")
        for k, v in c.items():
            f.write("  %s = %s\n" % (k, v))
        f.write("PROPERTIES %s\nCHECK_DEADLOCK FALSE\n" % props)
    r = vf.tlc("Advertiser", cfg, workdir=vf.mktmp("vf-lv-"), timeout=timeout, heap="10g")
    return {"config": name + " (liveness: %s under WF of the internal steps, time and gate release)" % props, "constants": c,
            "states": r["states"], "transitions": r["generated"], "ok": r["ok"], "violation": r["violation"], "wall_s": round(r["wall_s"], 1)}


def env_histories(tmp, name, overrides, timeout=600):
    c = dict(ENV_DEFAULTS)
    c.update(overrides)
    cfg = os.path.join(tmp, "Env_%s.cfg" % name)
    _cfg(cfg, "ESpec", c, "Emit")
    wd = vf.mktmp("vf-env-")
    r = vf.tlc("AdvEnv", cfg, workdir=wd, timeout=timeout)
    seen, out = set(), []
    for p in r["printed"]:
        k = json.dumps(p["h"], sort_keys=True)
        if k not in seen:
            seen.add(k)
            out.append(p["h"])
    out.sort(key=lambda h: json.dumps(h, sort_keys=True))
    return out, r["states"], r["generated"]


HOSTS = {"h1": "fe80::a1", "h2": "2001:db8::a2", "h3": "fd00::a3"}


def _dst(d):
    return HOSTS.get(d, d)


def history_to_steps(h, grid, tail=7000, jitter=None, snap=True, hl_for_bad=None):
    """Translate one environment history (ticks) into harness steps (ms)."""
    steps, flipval = [], None
    hl_for_bad = hl_for_bad or [1]
    nbad = 0
    last = 0
    for i, e in enumerate(h):
        at = e["at"] * grid
        if jitter:
            at = max(0, at + jitter[i % len(jitter)])
        at = max(at, last)
        last = at
        steps.append({"op": "adv", "to": at})
        op = e["op"]
        if op == "rs":
            steps.append({"op": "rs", "src": _dst(e["src"])})
        elif op == "badhl":
            steps.append({"op": "rs", "src": ["fe80::bad", "unspec"][nbad % 2], "hl": hl_for_bad[nbad % len(hl_for_bad)]})
            nbad += 1
        elif op in ("ns", "na"):
            steps.append({"op": "msg", "kind": op, "src": ["fe80::cc", "unspec", "2001:db8::cc"][i % 3]})
        elif op == "rasame":
            steps.append({"op": "msg", "kind": "ra", "variant": "same", "src": "fe80::dd"})
        elif op == "radiff":
            steps.append({"op": "msg", "kind": "ra", "variant": "diffhl", "src": "fe80::dd"})
        elif op == "timeout":
            steps.append({"op": "timeout"})
        elif op.startswith("readerr"):
            steps.append({"op": "readerr", "class": op.split("_", 1)[1]})
        elif op == "link":
            steps.append({"op": "link"})
        elif op in ("scrape", "api"):
            steps.append({"op": op})
        elif op == "flip":
            steps.append({"op": "flip", "toggle": True})
        elif op == "hold":
            steps.append({"op": "hold", "key": "fwd|vf0" if e["dst"] == "fwdgate" else "w|" + _dst(e["dst"])})
        elif op == "release":
            steps.append({"op": "release", "key": "fwd|vf0" if e["dst"] == "fwdgate" else "w|" + _dst(e["dst"])})
        elif op == "failw":
            steps.append({"op": "failw", "dst": _dst(e["dst"]), "class": e.get("class", "other")})
        elif op == "cancel":
            steps.append({"op": "cancel", "term": e["term"]})
        else:
            raise ValueError(op)
    if not any(s["op"] == "cancel" for s in steps):
        steps.append({"op": "adv", "to": last + tail})
        if snap:
            steps.append({"op": "snap"})
    return steps


def run_scenarios(tmp, scenarios, tag, timeout=1800, nshards=None):
    """Run scenarios through the real code (sharded over processes) and
    return the raw event lists per shard."""
    nshards = nshards or min(vf.NCPU, max(1, len(scenarios) // 150))
    shards = [scenarios[i::nshards] for i in range(nshards)]
    outs = []
    # One compile first (warms the cache), then shards in parallel.
    def one(i):
        """Runs shard i; if the code under test crashes the process, the
        scenario in progress is recorded as crashed and the rest is re-run."""
        todo = shards[i]
        parts = []
        for attempt in range(4):
            inp = os.path.join(tmp, "%s-in-%d-%d.ndjson" % (tag, i, attempt))
            outp = os.path.join(tmp, "%s-out-%d-%d.ndjson" % (tag, i, attempt))
            vf.write_ndjson(inp, todo)
            try:
                vf.go_test(HARNESS_PKGS, "internal/corerad", "^TestVF_Adv$", env={"VF_IN": inp, "VF_OUT": outp},
                           timeout=timeout, tmp=vf.mktmp("vf-go-"))
                parts.append(outp)
                break
            except vf.ProductCrash as c:
                last = None
                good = []
                for line in open(outp, errors="replace"):
                    try:
                        e = json.loads(line)
                    except ValueError:
                        break
                    good.append(e)
                    if e.get("ev") == "reset":
                        last = e["id"]
                # keep complete scenarios, mark the one in progress as crashed
                keep, cur = [], []
                for e in good:
                    if e["ev"] == "reset":
                        cur = [e]
                    else:
                        cur.append(e)
                    if e["ev"] == "end":
                        keep += cur
                        cur = []
                msg = [l for l in c.out.splitlines() if l.startswith("panic:") or l.startswith("fatal error:") or l.startswith("VF-HANG")][:1]
                how = "hang" if "VF-HANG scenario=" in c.out else "panic"
                if last is not None:
                    head = [e for e in good if e.get("ev") == "reset" and e.get("id") == last][:1]
                    keep += head + [{"ev": how, "seq": 0, "t": 0, "msg": (msg or ["crash"])[0]}, {"ev": "end", "id": last, "seq": 0, "t": 0}]
                fixed = outp + ".fixed"
                vf.write_ndjson(fixed, keep)
                parts.append(fixed)
                ids = [s["id"] for s in todo]
                if last in ids and how != "hang":
                    todo = todo[ids.index(last) + 1:]
                else:
                    todo = []           # (after a deadlock the rest of the shard is not run: every one would cost the watchdog's 45 s)
                if not todo:
                    break
        return parts
    outs += one(0)
    if nshards > 1:
        with concurrent.futures.ThreadPoolExecutor(max_workers=nshards) as ex:
            for parts in ex.map(one, range(1, nshards)):
                outs += parts
    return outs


TRACE_CONSTS = dict(MinDelay=3000, MaxRADelay=500, BackoffUnit=50, Retries=5, InitCap=16000, InitCount=3, Sec=1000)


def validate(tmp, out_files, tag, ifis=("vf0",), consts=None, lines_per_batch=60000):
    """Validate recorded traces with TLC (AdvTrace). Returns (violations,
    n_traces, n_lines, samples)."""
    rows, ntr = [], 0
    samples = []
    for f in out_files:
        ev = vf.read_ndjson(f)
        for n, ifi in enumerate(ifis):
            if n > 0:
                # only scenarios that really have this interface
                sel, keep = [], False
                for e in ev:
                    if e["ev"] == "reset":
                        keep = e.get("nif", 1) > n
                    if keep:
                        sel.append(e)
                c = advtrace.compact(sel, ifi)
                for e in c:
                    if e["ev"] == "reset":
                        e["id"] = e["id"] + "@" + ifi
            else:
                c = advtrace.compact(ev, ifi)
            rows.append(c)
    flat = [e for c in rows for e in c]
    # split into batches at reset boundaries
    batches, cur = [], []
    for e in flat:
        if e["ev"] == "reset":
            ntr += 1
            if len(cur) >= lines_per_batch:
                batches.append(cur)
                cur = []
        cur.append(e)
    if cur:
        batches.append(cur)
    # a sample trace for the evidence
    if flat:
        i0 = 0
        s = []
        for e in flat:
            if e["ev"] == "reset" and s:
                break
            s.append(e)
        samples.append([x for x in s if x["ev"] not in ("quiet", "rcall", "cnt")][:40])
    c = dict(TRACE_CONSTS)
    c.update(consts or {})
    cfg = os.path.join(tmp, "AdvTrace_%s.cfg" % tag)
    with open(cfg, "w") as f:
        f.write("SPECIFICATION TSpec\nCONSTANTS\n")
        for k, v in c.items():
            f.write("  %s = %s\n" % (k, v))
        f.write("CHECK_DEADLOCK FALSE\nPOSTCONDITION Consumed\n")

    def one(b):
        wd = vf.mktmp("vf-tv-")
        vf.write_ndjson(os.path.join(wd, "trace.ndjson"), b)
        r = vf.tlc("AdvTrace", cfg, workdir=wd, workers=1, timeout=1200, heap="3g")
        if not r["ok"]:
            raise vf.Infra("trace validation did not consume the whole trace: %s" % r["violation"])
        if r["states"] != len(b) + 1:
            raise vf.Infra("trace validation consumed %d of %d lines" % (r["states"] - 1, len(b)))
        return r["printed"]

    viols = []
    with concurrent.futures.ThreadPoolExecutor(max_workers=min(vf.NCPU, 12)) as ex:
        for pr in ex.map(one, batches):
            viols += pr
    return viols, ntr, len(flat), samples


def clause_props(clause):
    ids = set(re.findall(r"c(\d\d)", clause))
    return {"C" + i for i in ids}


# ------------------------------------------------------------ conformance ----
def conf_scenarios(out_files):
    """Recorded scenarios in the conformance vocabulary (bodies and connection ids normalised)."""
    scen = []
    for f in out_files:
        cur = None
        body0 = None
        for e in advtrace.compact(vf.read_ndjson(f), "vf0", conf=True):
            if e["ev"] == "reset":
                if cur:
                    scen.append(cur)
                cur = [e]
                body0 = None
                kmap = {}
            elif cur is not None:
                if "k" in e and e["k"] != 0:
                    # connection ids are global to a scenario (two interfaces): the model numbers this interface's from 1
                    e["k"] = kmap.setdefault(e["k"], len(kmap) + 1)
                if "body" in e:
                    # the model knows one body ("b"): rename the scenario's first digest to it
                    if body0 is None:
                        body0 = e["body"]
                    e["body"] = "b" if e["body"] == body0 else "b-changed"
                cur.append(e)
        if cur:
            scen.append(cur)

    return scen


DEVIATION_DETAIL = []      # (events, constants) of the first deviating scenarios of this process, for the report


def conformance(tmp, out_files, tag, max_scen=400, budget_s=None):
    """Hidden-step conformance of single-session traces with Advertiser.tla
    (spec/AdvConf.tla). Returns (n_checked, deviations [ids], tlc stats)."""
    scen = conf_scenarios(out_files)

    def eligible(evs):
        r = evs[0]
        if r.get("mode") not in ("adv", "mon"):
            return False
        ndial = sum(1 for e in evs if e["ev"] == "dial")
        if ndial < 1 or ndial > 4 or any(e["ev"] == "dial" and e["res"] != "ok" for e in evs):
            return False
        if any(e["ev"] in ("leak", "hang", "panic") for e in evs):
            return False
        if any(e["ev"] in ("hold", "release") and e.get("gate") != "w" for e in evs):
            return False
        if sum(1 for e in evs if e["ev"] == "arrive") > 6:
            return False
        return True
    groups = {}
    for evs in scen:
        if not eligible(evs):
            continue
        r = evs[0]
        key = (r["unicast"], r["cfglife"], r["min"], r["max"], r["mode"] == "mon")
        groups.setdefault(key, []).append(evs)
    explained, deviations, stats = set(), [], []
    total = 0
    t_start = time.time()
    for key, lst in sorted(groups.items(), key=lambda kv: str(kv[0])):
        lst = lst[:max_scen]
        unicast, cfglife, mn, mx, monmode = key
        rs = lambda x: ((x + 500) // 1000) * 1000
        consts = dict(MinDelay=3000, MaxRADelay=500, InitCap=16000, InitCount=3, MinIv=rs(mn), MaxIv=rs(mx), ChanCap=16, Retries=5,
                      BackoffUnit=50, UnicastOnly="TRUE" if unicast else "FALSE", MonitorMode="TRUE" if monmode else "FALSE", CfgLife=cfglife, Hosts="{}", Kinds="{}", MaxIn=0, DebugK=0,
                      MaxT=0, MaxFlips=0, MaxHolds=0, WriteFaults="TRUE", LinkFaults="TRUE", AllowCancel="TRUE", Sec=1000, MaxQueries=0, MaxSessions=4, FwdFaults="TRUE")
        for b in range(0, len(lst), 50):
            if budget_s is not None and time.time() - t_start > budget_s:
                break
            part = lst[b:b + 50]
            total += len(part)
            wd = vf.mktmp("vf-conf-")
            rows = [e for evs in part for e in evs]
            vf.write_ndjson(os.path.join(wd, "trace.ndjson"), rows)
            cfg = os.path.join(wd, "AdvConf.cfg")
            with open(cfg, "w") as f:
                f.write("SPECIFICATION CSpec\nCONSTANTS\n")
                for k, v in consts.items():
                    f.write("  %s = %s\n" % (k, v))
                f.write("INVARIANT Explained\nCHECK_DEADLOCK FALSE\n")
            try:
                r = vf.tlc("AdvConf", cfg, workdir=wd, timeout=900, heap="6g")
            except vf.Infra as ex:
                # the hidden-step search of some scenario in this batch did not finish: conformance is left undecided for
                # the batch (it is not a verdict either way, and never fails the check)
                stats.append({"group": str(key), "scenarios": len(part), "undecided": True, "why": str(ex)[:200]})
                total -= len(part)
                continue
            if not r["ok"]:
                raise vf.Infra("conformance run failed: %s" % r["violation"])
            stats.append({"group": str(key), "scenarios": len(part), "states": r["states"], "wall_s": round(r["wall_s"], 1)})
            got = {p["explained"] for p in r["printed"] if "explained" in p}
            explained |= got
            for evs in part:
                if evs[0]["id"] not in got:
                    deviations.append(evs[0]["id"])
                    if len(DEVIATION_DETAIL) < 3:
                        DEVIATION_DETAIL.append((evs, dict(consts)))
    return total, deviations, stats


def longest_explained_prefix(evs, consts, timeout=300):
    """For one deviating scenario: the number of leading trace lines some behaviour of Advertiser.tla explains, and the
    first line nothing explains (binary search with the invariant Reach == l <= DebugK of AdvConf)."""
    def reachable(k):           # is line k+1 reachable, i.e. are the first k lines explained?
        wd = vf.mktmp("vf-cd-")
        vf.write_ndjson(os.path.join(wd, "trace.ndjson"), evs)
        cfg = os.path.join(wd, "c.cfg")
        with open(cfg, "w") as f:
            f.write("SPECIFICATION CSpec\nCONSTANTS\n")
            for a, b in dict(consts, DebugK=k).items():
                f.write("  %s = %s\n" % (a, b))
            f.write("INVARIANT Reach\nCHECK_DEADLOCK FALSE\n")
        try:
            r = vf.tlc("AdvConf", cfg, workdir=wd, timeout=timeout, heap="4g")
        except vf.Infra:
            return False
        return not r["ok"]
    lo, hi = 1, len(evs)
    while lo < hi:
        mid = (lo + hi + 1) // 2
        if reachable(mid - 1):
            lo = mid
        else:
            hi = mid - 1
    return lo, (evs[lo - 1] if lo - 1 < len(evs) else None)
