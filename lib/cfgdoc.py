"""Abstract configuration documents for spec/Config.tla together with their
TOML text. The abstract form is built from typed values and the TOML text is
rendered from the same values, so the classification the spec relies on
(duration value, prefix canonical / IPv4 / ...) is correct by construction."""
import ipaddress, re

INF_S = 4294967295


# ------------------------------------------------------------- durations --
def dur_ms(ms):
    """Dur record for an integer number of milliseconds (may be negative)."""
    s, rem = divmod(ms, 1000)
    if s == INF_S and rem == 0:
        return {"k": "inf", "s": 0, "ms": 0, "ns": 0}
    if s > INF_S or (s == INF_S and rem > 0):
        return {"k": "over", "s": 0, "ms": 0, "ns": 0}
    assert -2**31 < s < 2**31
    return {"k": "fin", "s": s, "ms": rem, "ns": 0}


def go_dur(ms):
    """A Go duration string for ms (exact)."""
    if ms % 1000 == 0:
        return "%ds" % (ms // 1000)
    return "%dms" % ms


ZERO = {"k": "fin", "s": 0, "ms": 0, "ns": 0}


def K(st, ms=None, text=None):
    """DurKey. st in absent|empty|auto|infinite|val|bad."""
    if st == "val":
        return {"st": "val", "d": dur_ms(ms), "_text": text or go_dur(ms)}
    txt = {"absent": None, "empty": "", "auto": "auto", "infinite": "infinite", "bad": text or "12 parsecs"}[st]
    return {"st": st, "d": ZERO, "_text": txt}


ABSENT = lambda: K("absent")


# ------------------------------------------------------------------ nets --
def hx(a):
    b = ipaddress.ip_address(a)
    p = b.packed
    if b.version == 4:
        return [0, 0, 0, 0, 0, 0, p[0] * 256 + p[1], p[2] * 256 + p[3]]
    return [p[2 * i] * 256 + p[2 * i + 1] for i in range(8)]


def N(text):
    """Net value from a CIDR string (or "" / None for omitted)."""
    if not text:
        return {"st": "empty", "s": "", "h": [0] * 8, "bits": 0, "_text": text}
    try:
        ifc = ipaddress.ip_interface(text)
    except ValueError:
        return {"st": "bad", "s": "", "h": [0] * 8, "bits": 0, "_text": text}
    if "/" not in text:
        return {"st": "bad", "s": "", "h": [0] * 8, "bits": 0, "_text": text}
    if ifc.version == 4:
        return {"st": "v4", "s": "", "h": [0] * 8, "bits": 0, "_text": text}
    if ifc.ip.ipv4_mapped is not None:
        return {"st": "4in6", "s": "", "h": [0] * 8, "bits": 0, "_text": text}
    net = ifc.network
    if ifc.ip != net.network_address:
        return {"st": "noncanon", "s": "", "h": [0] * 8, "bits": 0, "_text": text}
    # netip prints addresses in canonical (RFC 5952) form, as ipaddress does
    return {"st": "ok", "s": "%s/%d" % (net.network_address.compressed, net.prefixlen), "h": hx(str(net.network_address)),
            "bits": net.prefixlen, "_text": text}


def S(text):
    """RDNSS server value."""
    try:
        a = ipaddress.ip_address(text)
    except ValueError:
        return {"st": "bad", "s": "", "h": [0] * 8, "_text": text}
    if a.version == 4:
        return {"st": "v4", "s": "", "h": [0] * 8, "_text": text}
    if a.ipv4_mapped is not None:
        return {"st": "4in6", "s": "", "h": [0] * 8, "_text": text}
    if a == ipaddress.ip_address("::"):
        return {"st": "unspec", "s": "::", "h": [0] * 8, "_text": text}
    return {"st": "ok", "s": a.compressed, "h": hx(text), "_text": text}


# ---------------------------------------------------------------- stanzas --
def prefix(net="", valid=None, pref=None, deprecated=False, onlink="absent", auto="absent"):
    return {"net": N(net), "valid": valid or ABSENT(), "pref": pref or ABSENT(), "deprecated": deprecated, "onlink": onlink,
            "auto": auto}


def route(net="", preference="", life=None, deprecated=False):
    return {"net": N(net), "preference": preference, "life": life or ABSENT(), "deprecated": deprecated}


def rdnss(servers=(), life=None):
    return {"life": life or ABSENT(), "servers": [S(x) for x in servers]}


def dnssl(names=("lan.example",), life=None):
    return {"life": life or ABSENT(), "names": list(names)}


def pref64(net=None):
    return {"net": N(net)}


def table(name="eth0", names=(), monitor=False, advertise=True, verbose=False, managed=False, other=False, unicast=False,
          max=None, min=None, life=None, reach=None, retrans=None, hop=None, mtu=0, preference="", lla="absent", captive="",
          prefixes=(), routes=(), rdnss_=(), dnssl_=(), pref64_=(), extra_key=False):
    return {"name": name, "names": list(names), "monitor": monitor, "advertise": advertise, "verbose": verbose, "managed": managed,
            "other": other, "unicast": unicast, "max": max or ABSENT(), "min": min or ABSENT(), "life": life or ABSENT(),
            "reach": reach or ABSENT(), "retrans": retrans or ABSENT(),
            "hop": {"set": hop is not None, "v": hop if hop is not None else 0}, "mtu": mtu, "preference": preference,
            "lla": lla, "captive": captive, "prefixes": list(prefixes), "routes": list(routes), "rdnss": list(rdnss_),
            "dnssl": list(dnssl_), "pref64": list(pref64_), "_extra": extra_key}


def document(ifaces, debug_addr="", prometheus=False, pprof=False, unknown="none"):
    cls = "empty" if debug_addr == "" else ("ok" if re.match(r"^(\[[0-9a-f:]+\]|[0-9.]*):\d{1,5}$", debug_addr) and
                                            int(debug_addr.rsplit(":", 1)[1]) < 65536 else "bad")
    return {"ifaces": list(ifaces), "debug": {"addr": cls, "prometheus": prometheus, "pprof": pprof, "_text": debug_addr},
            "unknown": unknown}


# ------------------------------------------------------------------- TOML --
def q(s):
    return '"' + s.replace("\\", "\\\\").replace('"', '\\"') + '"'


def _kv(out, indent, key, dk):
    if dk["_text"] is not None:
        out.append("%s%s = %s" % (indent, key, q(dk["_text"])))


def _b(v):
    return "true" if v else "false"


def render(doc):
    out = []
    if doc["unknown"] == "top":
        out.append('surprise = "x"')
    for t in doc["ifaces"]:
        out.append("[[interfaces]]")
        if t["name"] != "":
            out.append("name = %s" % q(t["name"]))
        if t["names"]:
            out.append("names = [%s]" % ", ".join(q(n) for n in t["names"]))
        if t["monitor"]:
            out.append("monitor = true")
        if t["advertise"]:
            out.append("advertise = true")
        for key in ("verbose", "managed", "unicast"):
            if t[key]:
                out.append("%s = true" % {"unicast": "unicast_only"}.get(key, key))
        if t["other"]:
            out.append("other_config = true")
        _kv(out, "", "max_interval", t["max"])
        _kv(out, "", "min_interval", t["min"])
        _kv(out, "", "default_lifetime", t["life"])
        _kv(out, "", "reachable_time", t["reach"])
        _kv(out, "", "retransmit_timer", t["retrans"])
        if t["hop"]["set"]:
            out.append("hop_limit = %d" % t["hop"]["v"])
        if t["mtu"] != 0:
            out.append("mtu = %d" % t["mtu"])
        if t["preference"] != "":
            out.append("preference = %s" % q(t["preference"]))
        if t["lla"] != "absent":
            out.append("source_lla = %s" % t["lla"])
        if t["captive"] != "":
            out.append("captive_portal = %s" % q(t["captive"]))
        if doc["unknown"] == "iface" or t.get("_extra"):
            out.append('surprise = "x"')
        for p in t["prefixes"]:
            out.append("  [[interfaces.prefix]]")
            if p["net"]["_text"]:
                out.append("  prefix = %s" % q(p["net"]["_text"]))
            _kv(out, "  ", "valid_lifetime", p["valid"])
            _kv(out, "  ", "preferred_lifetime", p["pref"])
            if p["deprecated"]:
                out.append("  deprecated = true")
            for key in ("onlink", "auto"):
                if p[key] != "absent":
                    out.append("  %s = %s" % ({"onlink": "on_link", "auto": "autonomous"}[key], p[key]))
            if doc["unknown"] == "stanza":
                out.append('  surprise = "x"')
        for r in t["routes"]:
            out.append("  [[interfaces.route]]")
            if r["net"]["_text"]:
                out.append("  prefix = %s" % q(r["net"]["_text"]))
            if r["preference"] != "":
                out.append("  preference = %s" % q(r["preference"]))
            _kv(out, "  ", "lifetime", r["life"])
            if r["deprecated"]:
                out.append("  deprecated = true")
        for r in t["rdnss"]:
            out.append("  [[interfaces.rdnss]]")
            _kv(out, "  ", "lifetime", r["life"])
            if r["servers"]:
                out.append("  servers = [%s]" % ", ".join(q(s["_text"]) for s in r["servers"]))
        for d in t["dnssl"]:
            out.append("  [[interfaces.dnssl]]")
            _kv(out, "  ", "lifetime", d["life"])
            out.append("  domain_names = [%s]" % ", ".join(q(n) for n in d["names"]))
        for p in t["pref64"]:
            out.append("  [[interfaces.pref64]]")
            if p["net"]["_text"] is not None:
                out.append("  prefix = %s" % q(p["net"]["_text"]))
    d = doc["debug"]
    if d["_text"] != "" or d["prometheus"] or d["pprof"]:
        out.append("[debug]")
        if d["_text"] != "":
            out.append("address = %s" % q(d["_text"]))
        if d["prometheus"]:
            out.append("prometheus = true")
        if d["pprof"]:
            out.append("pprof = true")
    return "\n".join(out) + "\n"


def strip(x):
    """Remove the rendering hints (keys starting with _) before TLC sees the document."""
    if isinstance(x, dict):
        return {k: strip(v) for k, v in x.items() if not k.startswith("_")}
    if isinstance(x, list):
        return [strip(v) for v in x]
    return x
