"""Property id -> check function."""
import checks_adv

CHECKS = {}
for _p in ("C06", "C07", "C08", "C09"):
    CHECKS[_p] = checks_adv.make(_p)

import checks_dial
CHECKS["C11"] = checks_dial.c11
CHECKS["C10"] = checks_dial.c10
