"""Property id -> check function."""
import checks_adv

CHECKS = {}
for _p in ("C04", "C06", "C07", "C08", "C09"):
    CHECKS[_p] = checks_adv.make(_p)

import checks_dial
CHECKS["C11"] = checks_dial.c11
CHECKS["C10"] = checks_dial.c10

import checks_vec
CHECKS["C13"] = checks_vec.c13
CHECKS["C14"] = checks_vec.c14
CHECKS["C15"] = checks_vec.c15
CHECKS["C16"] = checks_vec.c16
CHECKS["C05"] = checks_vec.c05
CHECKS["C12"] = checks_vec.c12
import checks_mon
CHECKS["C18"] = checks_mon.c18
import checks_misc
CHECKS["C19"] = checks_misc.c19
CHECKS["C20"] = checks_misc.c20
import checks_cfg
CHECKS["C02"] = checks_cfg.c02
CHECKS["C01"] = checks_cfg.c01
CHECKS["C03"] = checks_cfg.c03
CHECKS["C17"] = checks_cfg.c17
