"""Checks for the advertiser family: C06, C07, C08, C09, C10 (session part), C04."""
import json, os, random, re, time
import vf, adv

GRID = 500   # ms per model tick in the exhaustive configurations


def _cfgs_for(p, tier):
    return p["cfgs_thorough"] if tier == "thorough" and "cfgs_thorough" in p else p["cfgs"]


def rand_bursts(rng, n, kinds, horizon=30000, cancel=False, hosts=("fe80::a1", "2001:db8::a2", "fd00::a3")):
    """Random long bursty history around the 3 s / 500 ms boundaries."""
    steps, t = [], 0
    gaps = [0, 0, 0, 1, 2, 250, 499, 500, 501, 1000, 2999, 3000, 3001, 1500, 5999, 6000]
    for i in range(n):
        t += rng.choice(gaps)
        steps.append({"op": "adv", "to": t})
        k = rng.choice(kinds)
        burst = rng.choice([1, 1, 1, 2, 3, 20]) if k == "rs" else 1
        for b in range(burst):
            if k == "rs":
                src = rng.choice(list(hosts) + ["unspec", "unspec"])
                st = {"op": "rs", "src": src, "lla": rng.random() < 0.3}
                if b < burst - 1:
                    st["nowait"] = True
                steps.append(st)
            elif k == "badhl":
                steps.append({"op": "rs", "src": rng.choice(["fe80::bad", "unspec", "2001:db8::bad"]), "hl": rng.randrange(0, 255)})
            elif k in ("ns", "na"):
                steps.append({"op": "msg", "kind": k, "src": rng.choice(["fe80::cc", "unspec", "fd00::cc"])})
            elif k == "flip":
                steps.append({"op": "flip", "toggle": True})
            elif k == "link":
                steps.append({"op": "link"})
            elif k == "rasame":
                steps.append({"op": "msg", "kind": "ra", "variant": "same", "src": "fe80::dd"})
            elif k == "radiff":
                steps.append({"op": "msg", "kind": "ra", "variant": "diffhl", "src": "fe80::dd"})
    steps.append({"op": "adv", "to": t + 7000})
    steps.append({"op": "snap"})
    if cancel:
        steps.append({"op": "cancel", "term": rng.random() < 0.5})
    return steps


def adv_check(pid, tier, replay, plan):
    t0 = time.time()
    tmp = vf.mktmp("vf-%s-" % pid)
    seed = vf.seed()
    rng = random.Random(seed * 7919 + int(pid[1:]))
    thorough = tier == "thorough"

    scenarios = []
    mc_results = []
    env_stats = []
    if replay:
        rp = json.load(open(replay))
        scenarios = rp["scenarios"]
    else:
        # 1. exhaustive model checking: Impl => Requirement within the bounds
        for name, q, th in ([] if os.environ.get("VERIF_NO_MC") else plan["mc"]):
            ov = dict(q)
            if thorough:
                ov.update(th)
            r = adv.model_check(tmp, pid + "_" + name, ov, timeout=3000 if thorough else 900)
            mc_results.append(r)
            if not r["ok"]:
                # A model-level counterexample is never a verdict by itself.
                print("MODEL-COUNTEREXAMPLE property=%s config=%s clause=%s (not a verdict; see DESIGN.md 2.4)"
                      % (pid, name, r.get("clause") or r.get("violation")))
        for name, q, th in ([] if os.environ.get("VERIF_NO_MC") else plan.get("liveness", [])):
            ov = dict(q)
            if thorough:
                ov.update(th)
            r = adv.liveness_check(tmp, pid + "_" + name, ov)
            mc_results.append(r)
            if not r["ok"]:
                print("MODEL-COUNTEREXAMPLE property=%s config=%s liveness %s (not a verdict)" % (pid, name, r["violation"]))
        # 2. TLC-enumerated environment histories -> scenarios
        for name, q, th, variants in plan["env"]:
            ov = dict(q)
            if thorough:
                ov.update(th)
            hs, st, tr = adv.env_histories(tmp, pid + "_" + name, ov)
            env_stats.append({"config": name, "histories": len(hs), "states": st})
            cap = plan.get("cap_thorough" if thorough else "cap_quick")
            if cap and len(hs) > cap:
                rng.shuffle(hs)
                hs = hs[:cap]
            for i, h in enumerate(hs):
                v = variants[i % len(variants)] if not thorough else None
                for vi, var in enumerate(variants if thorough else [v]):
                    cfg = dict(var["cfg"])
                    cfg["offset"] = (seed * 131 + i * 17 + vi) % 977
                    steps = adv.history_to_steps(h, GRID, jitter=var.get("jitter"), hl_for_bad=var.get("hl"))
                    scenarios.append({"id": "%s-%s-%05d-%d" % (pid, name, i, vi), "cfg": cfg, "steps": steps,
                                      "src": "tlc-env"})
        # 3. random long histories beyond the model bounds
        for j in range(plan.get("nrand_thorough", 0) if thorough else plan.get("nrand", 0)):
            var = rng.choice(plan["rand_variants"])
            cfg = dict(var["cfg"])
            cfg["offset"] = rng.randrange(0, 977)
            steps = plan["rand"](rng)
            scenarios.append({"id": "%s-rand-%05d" % (pid, j), "cfg": cfg, "steps": steps, "src": "random"})
        for j, sc in enumerate(plan.get("fixed", [])):
            s2 = dict(sc)
            s2["id"] = "%s-fixed-%03d" % (pid, j)
            scenarios.append(s2)

    # 4. run the real code
    outs = adv.run_scenarios(tmp, scenarios, pid)
    # 4b. a sample of the scenarios once more under the Go race detector (thorough tier, and C08 always): a lock that a
    # change removed is a data race long before it is a wrong trace
    race_viol = []
    if not replay and (thorough or pid == "C08" or os.environ.get("VERIF_RACE_ALL")) and not os.environ.get("VERIF_NO_RACE"):
        rs = [s for s in scenarios if plan["nontrivial"](s)]
        rng.shuffle(rs)
        rs = rs[:200 if thorough or os.environ.get("VERIF_RACE_ALL") else 40]
        inp = os.path.join(tmp, "%s-race-in.ndjson" % pid)
        vf.write_ndjson(inp, rs)
        try:
            vf.go_test(adv.HARNESS_PKGS, "internal/corerad", "^TestVF_Adv$", env={"VF_IN": inp, "VF_OUT": os.path.join(tmp, "%s-race-out.ndjson" % pid)},
                       timeout=1200, tmp=vf.mktmp("vf-go-"), race=True)
        except vf.DataRace as dr:
            blocks = [b for b in dr.out.split("WARNING: DATA RACE")[1:]
                      if re.search(r"internal/(corerad|system|plugin|config)/(?!zz_vf_)[a-z_]+\.go:\d+", b)
                      and not re.search(r"Previous (read|write) at .*\n\s+github.com/mdlayher/corerad/internal/corerad\.vf", b)]
            real = [b for b in blocks if not all("zz_vf_" in ln for ln in re.findall(r"^\s+/\S+\.go:\d+.*$", b, re.M)[:2])]
            if real:
                race_viol = [{"viol": "c08-c10-data-race-in-the-advertiser", "id": rs[0]["id"], "t": 0, "detail": real[0][:2000]}]
            else:
                raise vf.Infra("data race inside the harness itself: %s" % dr.out[-1500:])
        except vf.ProductCrash:
            pass        # (crashes are reported by the main run)
    # 5. validate every recorded trace against the requirement spec
    viols, ntr, nlines, samples = adv.validate(tmp, outs, pid, ifis=plan.get("ifis", ("vf0",)))

    # 5b. conformance of the recorded traces with the implementation-shaped model itself
    conf = {"checked": 0, "deviations": [], "runs": []}
    if plan.get("conformance", True) and not os.environ.get("VERIF_NO_CONFORMANCE"):
        nconf, dev, cstats = adv.conformance(tmp, outs, pid, max_scen=int(os.environ.get("VERIF_CONF_MAX", 1500 if thorough else 25)),
                                              budget_s=1500 if thorough else 45)
        conf = {"checked": nconf, "deviations": dev[:50], "n_deviations": len(dev), "runs": cstats}
        for d in dev[:10]:
            print("MODEL-DEVIATION property=%s scenario=%s (the trace is not a behaviour of Advertiser.tla; not a verdict)" % (pid, d))
        # where the model and the execution part ways: longest explained prefix of the first deviating scenarios
        detail = []
        for evs, consts in adv.DEVIATION_DETAIL[:3]:
            k, nxt = adv.longest_explained_prefix(evs, consts)
            detail.append({"scenario": evs[0]["id"], "explained_lines": k - 1, "of": len(evs), "first_unexplained": nxt})
            print("MODEL-DEVIATION-DETAIL property=%s scenario=%s explained %d of %d lines; first unexplained: %s"
                  % (pid, evs[0]["id"], k - 1, len(evs), json.dumps(nxt)))
        conf["detail"] = detail

    viols = list(viols) + race_viol
    mine, others = [], []
    for v in viols:
        props = adv.clause_props(v["viol"])
        if pid in props or not props:
            mine.append(v)
        else:
            others.append(v)

    by_id = {s["id"]: s for s in scenarios}
    kf = [f for f in vf.known_findings().get("findings", []) if f.get("property") == pid]
    reported, known = [], []
    for v in mine:
        sid = v["id"].split("@")[0]
        match = None
        for f in kf:
            if f.get("clause") == v["viol"] and all(tok in json.dumps(by_id.get(sid, {})) for tok in f.get("scenario_contains", [])):
                match = f
        if match:
            known.append((match, v))
        else:
            reported.append(v)
    for f in {id(m): m for m, _ in known}.values():
        print("KNOWN-FINDING: property=%s %s" % (pid, f["what"]))
    rc = 0
    seen_clause = set()
    for v in reported:
        sid = v["id"].split("@")[0]
        if v["viol"] in seen_clause and len(seen_clause) > 0 and len(reported) > 20:
            continue
        seen_clause.add(v["viol"])
        path = vf.save_replay(pid, sid, {"property": pid, "clause": v["viol"], "at_ms": v.get("t"),
                                         "scenarios": [by_id.get(sid, {"id": sid})]})
        print("VIOLATION property=%s replay=%s clause=%s scenario=%s" % (pid, path, v["viol"], sid))
        rc = 1
    if os.environ.get("VERIF_DEBUG"):
        for v in others[:5]:
            sid = v["id"].split("@")[0]
            print("DEBUG", vf.save_replay(pid, "other-" + sid, {"property": pid, "clause": v["viol"], "at_ms": v.get("t"), "scenarios": [by_id.get(sid, {"id": sid})]}))
    for v in others[:5]:
        print("NOTE other-property clause=%s scenario=%s (reported by that property's own check)" % (v["viol"], v["id"]))

    nontrivial = sum(1 for s in scenarios if plan["nontrivial"](s))
    states = sum(r["states"] for r in mc_results) or 1
    trans = sum(r["transitions"] for r in mc_results) or 1
    cov = {
        "states": states, "transitions": trans,
        "traces_validated_against_impl": ntr,
        "samples": samples + [scenarios[0]] if scenarios else samples,
        "evaluations": len(scenarios),
        "distinct_nontrivial": nontrivial,
        "rule": plan["rule"],
        "model_checking_runs": mc_results,
        "environment_histories": env_stats,
        "trace_lines_validated": nlines,
        "model_counterexamples": [r for r in mc_results if not r["ok"]],
        "violating_traces": len(reported), "known_finding_traces": len(known),
        "other_property_notes": len(others),
        "conformance_with_Advertiser_tla": conf,
        "exhaustive": False,
    }
    LAST.clear()
    LAST.update(cov=cov, assumptions=plan["assumptions"] + COMMON_ASSUMPTIONS, violations=len(reported))
    if plan.get("write_evidence", True):
        vf.write_evidence(pid, tier, "model_checking", cov, plan["assumptions"] + COMMON_ASSUMPTIONS, time.time() - t0,
                          violations=len(reported))
    print("%s %s: model states=%d, %d scenarios run on the real code, %d traces / %d events validated, %d violation(s), %.0fs"
          % (pid, tier, states, len(scenarios), ntr, nlines, len(reported), time.time() - t0))
    return rc


COMMON_ASSUMPTIONS = [
    "the real code is built with go1.26.8 (testing/synctest virtual time) while the baseline uses go1.23; no behaviour relevant to the property differs",
    "system.Conn, system.State, the metrics backend and the dial function are harness stubs: real sockets, sysctls and netlink are not exercised",
    "exhaustive results hold within the stated model constants; larger histories are sampled",
    "verdicts come only from AdvReq (requirement monitor) evaluated by TLC over events recorded from the real code",
]

DEF = {"cfg": {"min": 200000, "max": 600000, "life": 1800}}
FAST = {"cfg": {"min": 3000, "max": 4000, "life": 1800}}
UNI = {"cfg": {"min": 200000, "max": 600000, "life": 1800, "unicast": True}}
# the interface task runs under the real Server.Serve (real signal task and terminator); a stop is a signal
SRV = {"cfg": {"min": 200000, "max": 600000, "life": 1800, "serve": True}}
SRV2 = {"cfg": {"min": 200000, "max": 600000, "life": 1800, "serve": True, "ifaces": 2}}
JIT = {"cfg": {"min": 200000, "max": 600000, "life": 1800}, "jitter": [0, 1, -1, 0, 2]}

PLANS = {}
LAST = {}

PLANS["C06"] = dict(
    mc=[("c06", dict(Hosts='{"h1"}', Kinds="{}", MaxIn=3, MaxT=14, MinIv=7, MaxIv=8),
         dict(MaxIn=4, MaxT=16)),
        ("c06per", dict(Hosts="{}", Kinds="{}", MaxIn=2, MaxT=26, MinIv=6, MaxIv=7, AllowCancel="FALSE"), dict(MaxIn=3))],
    env=[("a", dict(Srcs='{"unspec", "h1"}', MaxEv=3, MaxT=14), dict(MaxEv=4, MaxT=16), [DEF, FAST, JIT]),
         ("stop", dict(Srcs='{"unspec"}', Terms="{TRUE, FALSE}", MaxEv=3, MaxT=13), dict(MaxEv=4), [DEF, FAST]),
         # re-initialisation (link event -> re-dial): spacing starts again at the new session's initial RA
         ("reinit", dict(Srcs='{"unspec"}', Kinds='{"link"}', MaxEv=3, MaxT=16), dict(MaxEv=4), [DEF, FAST])],
    cap_quick=1800, cap_thorough=14000,
    nrand=60, nrand_thorough=1500, rand_variants=[DEF, FAST],
    rand=lambda rng: rand_bursts(rng, rng.randrange(20, 120), ["rs", "rs", "rs", "rs", "link"] if rng.random() < 0.4 else ["rs"], cancel=rng.random() < 0.3),
    nontrivial=lambda s: sum(1 for x in s["steps"] if x["op"] == "rs" and x.get("src") == "unspec") >= 2,
    rule="scenarios = TLC-enumerated environment histories (AdvEnv: RS from :: / from a host on a 500 ms grid, with and "
         "without stop) x configuration variants, plus seeded random bursty histories; non-trivial = at least two "
         "multicast triggers (RS from ::) besides the periodic ones",
    assumptions=["timing is judged in virtual time (synctest); inputs are delivered at whole milliseconds"],
)

PLANS["C07"] = dict(
    mc=[("c07", dict(Hosts='{"h1", "h2"}', MaxRADelay=2, MaxIn=2, MaxT=7, MaxHolds=1, WriteFaults="FALSE"),
         dict(MaxIn=3, MaxT=9, MaxHolds=1)),
        ("c07burst", dict(Hosts='{"h1", "h2"}', MaxRADelay=2, MaxIn=3, MaxT=2, MaxHolds=0, WriteFaults="TRUE", ChanCap=1),
         dict(MaxIn=4, MaxT=3)),
        ("c07uni", dict(Hosts='{"h1"}', UnicastOnly="TRUE", MaxIn=3, MaxT=8), dict(MaxIn=4))],
    env=[("a", dict(Srcs='{"unspec", "h1", "h2"}', MaxEv=3, MaxT=8), dict(MaxEv=4, MaxT=9), [DEF, UNI, FAST]),
         ("hold", dict(Srcs='{"h1", "h2"}', HoldDsts='{"h1"}', MaxEv=4, MaxT=4), dict(MaxEv=5), [DEF, UNI])],
    cap_quick=1500, cap_thorough=12000,
    nrand=40, nrand_thorough=1500, rand_variants=[DEF, UNI, FAST],
    rand=lambda rng: rand_bursts(rng, rng.randrange(20, 120), ["rs", "rs", "rs", "ns"], cancel=rng.random() < 0.3),
    nontrivial=lambda s: sum(1 for x in s["steps"] if x["op"] == "rs") >= 2,
    rule="scenarios = TLC-enumerated histories of solicitations from two hosts and :: (with a held transmit) x "
         "{default, unicast-only, fast periodic} configurations, plus random bursts (up to 20 back-to-back, i.e. more "
         "than the 16-slot request channel); non-trivial = at least two solicitations",
    assumptions=["the unicast delay draw is the code's own PRNG (seeded from the virtual clock; varied via start offsets)"],
)

PLANS["C08"] = dict(
    liveness=[("stop", dict(MinDelay=3, MaxRADelay=1, MinIv=4, MaxIv=4, Hosts='{"h1"}', Kinds='{"readerr"}', MaxIn=1, MaxT=5, MaxHolds=1, WriteFaults="TRUE"), dict(MaxIn=2, MaxT=6, Kinds='{"readerr", "timeout"}'))],
    mc=[("c08", dict(Hosts='{"h1"}', MaxIn=2, MaxT=8, MaxHolds=2, MaxRADelay=2), dict(MaxIn=3, MaxT=9)),
        ("c08uni", dict(Hosts='{"h1"}', UnicastOnly="TRUE", MaxIn=2, MaxT=7, MaxHolds=1), dict(MaxIn=3))],
    env=[("a", dict(Srcs='{"unspec", "h1"}', HoldDsts='{"h1", "allnodes"}', Terms="{TRUE, FALSE}", MaxEv=4, MaxT=7),
          dict(MaxEv=5, MaxT=8), [DEF, FAST, UNI, SRV])],
    cap_quick=1500, cap_thorough=12000,
    nrand=30, nrand_thorough=800, rand_variants=[DEF, FAST, SRV, SRV2],
    ifis=("vf0", "vf1"),
    rand=lambda rng: rand_bursts(rng, rng.randrange(5, 40), ["rs"], cancel=True),
    nontrivial=lambda s: any(x["op"] == "cancel" for x in s["steps"]) and any(x["op"] in ("hold", "rs") for x in s["steps"]),
    rule="scenarios = TLC-enumerated histories over {RS, hold/release of a transmit, stop(term|reload)} replayed as forced "
         "schedules through WriteTo gates, plus random histories ending in a stop; non-trivial = a stop with at least one "
         "solicitation or held transmit before it",
    assumptions=["interleavings are forced only at WriteTo / forwarding-read gates and at quiescent points"],
)

PLANS["C09"] = dict(
    mc=[("c09", dict(Hosts='{"h1"}', Kinds='{"badhl", "other", "timeout"}', MaxIn=4, MaxT=6, Retries=2, AllowCancel="FALSE"),
         dict(MaxIn=5, MaxT=7, Retries=3)),
        ("c09mon", dict(MonitorMode="TRUE", Hosts='{"h1", "unspec2"}', Kinds='{"badhl", "other", "timeout", "rasame"}', MaxIn=5, MaxT=4, Retries=2),
         dict(MaxIn=6, Retries=3))],
    env=[("a", dict(Srcs='{"h1"}', Kinds='{"badhl", "ns", "na"}', MaxEv=4, MaxT=3), dict(MaxEv=5, MaxT=4),
          [dict(DEF, hl=[1, 0, 254, 64, 128]), dict(cfg=dict(DEF["cfg"], mode="mon"), hl=[254, 1]), dict(UNI, hl=[0])])],
    cap_quick=1500, cap_thorough=12000,
    fixed=[],
    nrand=40, nrand_thorough=800, rand_variants=[DEF, dict(cfg=dict(DEF["cfg"], mode="mon"))],
    rand=lambda rng: rand_bursts(rng, rng.randrange(10, 80), ["rs", "badhl", "badhl", "ns", "na"]),
    nontrivial=lambda s: sum(1 for x in s["steps"] if x.get("hl", 255) != 255 or x.get("kind") in ("ns", "na")) >= 1
                         and any(x["op"] == "rs" and x.get("hl", 255) == 255 for x in s["steps"]),
    rule="scenarios = TLC-enumerated sequences over {valid RS, bad hop limit, NS, NA} for advertiser, unicast-only "
         "advertiser and monitor, runs of 1..12 consecutive invalid messages, every hop limit 0..254, plus random mixes; "
         "non-trivial = at least one invalid message and one valid RS",
    assumptions=["'other message type' is exercised with NS and NA, the types ndp can construct besides RS/RA"],
)


def _c09_fixed():
    out = []
    # invalid messages, then one timeout, then valid solicitations: served as promptly as after any single timeout
    for mode in ("adv", "mon"):
        for k in (1, 5, 20, 300):
            steps = [{"op": "adv", "to": 5000}] + [{"op": "rs", "src": "fe80::bad", "hl": 1 + i % 250} for i in range(k)] + \
                    [{"op": "timeout"}, {"op": "rs", "src": "fe80::a1"}, {"op": "adv", "to": 5400}, {"op": "timeout"}, {"op": "timeout"}, {"op": "rs", "src": "fe80::a1"},
                     {"op": "adv", "to": 9000}]
            out.append({"cfg": dict(DEF["cfg"], mode=mode), "steps": steps, "src": "invalid-then-timeout-%d" % k})
    for k in range(1, 13):
        steps = [{"op": "adv", "to": 5000}] + [{"op": "rs", "src": "fe80::bad", "hl": (k * 37 + i) % 255} for i in range(k)]
        steps += [{"op": "rs", "src": "fe80::a1"}, {"op": "adv", "to": 12000}, {"op": "snap"}]
        out.append({"cfg": dict(DEF["cfg"]), "steps": steps, "src": "runs"})
        out.append({"cfg": dict(DEF["cfg"], mode="mon"), "steps": steps, "src": "runs"})
    steps = [{"op": "adv", "to": 5000}]
    for hl in range(0, 255):
        steps.append({"op": "rs", "src": "fe80::bad", "hl": hl})
    steps += [{"op": "rs", "src": "fe80::a1"}, {"op": "adv", "to": 12000}, {"op": "snap"}]
    out.append({"cfg": dict(DEF["cfg"]), "steps": steps, "src": "all-hop-limits"})
    out.append({"cfg": dict(DEF["cfg"], mode="mon"), "steps": steps, "src": "all-hop-limits"})
    return out


PLANS["C09"]["fixed"] = _c09_fixed()


PLANS["C10"] = dict(
    write_evidence=False,
    liveness=[("fault", dict(MinDelay=3, MaxRADelay=1, MinIv=4, MaxIv=4, Hosts='{"h1"}', Kinds='{"readerr"}', MaxIn=1, MaxT=5, MaxHolds=1, WriteFaults="TRUE"), dict(MaxIn=2, MaxT=6, LinkFaults="TRUE", Kinds='{"readerr", "timeout"}'))],
    mc=[("c10mon", dict(MonitorMode="TRUE", Hosts='{"h1"}', Kinds='{"timeout", "readerr", "badhl"}', MaxIn=4, MaxT=5, Retries=2, LinkFaults="TRUE"),
         dict(MaxIn=5, MaxT=6)),
        ("c10", dict(Hosts='{"h1"}', Kinds='{"timeout", "readerr"}', MaxIn=3, MaxT=6, Retries=2, WriteFaults="TRUE",
                     LinkFaults="TRUE", MaxHolds=0), dict(MaxIn=4, MaxT=6, MaxHolds=0)),
        # re-established sessions (D_Redial), failing forwarding reads, closed watcher channel
        ("c10redial", dict(Hosts='{"h1"}', Kinds='{"readerrsys", "rasame"}', MaxIn=2, MaxT=4, Retries=2, WriteFaults="TRUE",
                           FwdFaults="TRUE", LinkFaults="TRUE", MaxSessions=2), dict(MaxT=5, MaxSessions=3))],
    env=[("a", dict(Srcs='{"h1", "unspec"}', Kinds='{"timeout", "readerr_other", "readerr_sys", "link"}',
                    FailDsts='{"h1", "allnodes"}', Terms="{TRUE}", MaxEv=3, MaxT=7), dict(MaxEv=4, MaxT=8),
          [DEF, FAST, dict(cfg=dict(DEF["cfg"], mode="mon")), dict(cfg=dict(DEF["cfg"], dials=["ok", "lnr", "ok"]))])],
    cap_quick=1500, cap_thorough=12000,
    fixed=[],
    nrand=40, nrand_thorough=800, rand_variants=[DEF, FAST, dict(cfg=dict(DEF["cfg"], mode="mon"))],
    rand=lambda rng: rand_faults(rng),
    nontrivial=lambda s: any(x["op"] in ("timeout", "readerr", "link", "failw", "fwderr") for x in s["steps"]),
    rule="session level: TLC-enumerated histories over {RS, receive timeout, read error (plain / syscall), link event, "
         "failing transmit, stop} for advertiser and monitor, runs of 1..6 consecutive timeouts, random fault storms; "
         "non-trivial = at least one injected fault",
    assumptions=["faults are injected at the Conn boundary (ReadFrom / WriteTo results) and on the link-state channel"],
)


def rand_faults(rng):
    steps, t = [], 0
    for i in range(rng.randrange(3, 30)):
        t += rng.choice([0, 0, 50, 100, 150, 200, 250, 500, 1000, 3000])
        steps.append({"op": "adv", "to": t})
        k = rng.choice(["rs", "rs", "timeout", "timeout", "timeout", "readerr", "link", "failw", "okw", "fwderr", "ra", "wclose"])
        if k == "rs":
            steps.append({"op": "rs", "src": rng.choice(["fe80::a1", "unspec"])})
        elif k == "timeout":
            for _ in range(rng.choice([1, 1, 2, 4, 5])):
                steps.append({"op": "timeout"})
        elif k == "readerr":
            steps.append({"op": "readerr", "class": rng.choice(["other", "sys", "sys", "lnr", "link", "perm", "notexist"])})
        elif k == "link":
            steps.append({"op": "link"})
        elif k == "failw":
            steps.append({"op": "failw", "dst": rng.choice(["fe80::a1", "allnodes"]), "class": rng.choice(["other", "sys", "lnr", "perm"])})
        elif k == "fwderr":         # the forwarding-state read fails from now on (until an "okw")
            steps.append({"op": "fwderr", "class": rng.choice(["other", "sys"])})
        elif k == "ra":             # a foreign RA: our own RA is built for the comparison
            steps.append({"op": "msg", "kind": "ra", "src": "fe80::b1", "variant": rng.choice(["same", "diffhl"])})
        elif k == "wclose":         # the link-state watcher ends: its channel is closed (not a link change)
            steps.append({"op": "wclose"})
        else:
            steps.append({"op": "failw", "dst": "fe80::a1", "class": ""})
            steps.append({"op": "failw", "dst": "allnodes", "class": ""})
            steps.append({"op": "fwderr", "class": ""})
    steps.append({"op": "adv", "to": t + 8000})
    if rng.random() < 0.5:
        steps.append({"op": "cancel", "term": rng.random() < 0.5})
    return steps


def concurrent_write_failures():
    """Two or three scheduled transmissions held inside WriteTo at the same time, then all fail (or one fails)."""
    out = []
    for mode_cfg in (DEF["cfg"], FAST["cfg"], UNI["cfg"]):
        for hosts in (["fe80::a1", "2001:db8::a2"], ["fe80::a1", "2001:db8::a2", "fd00::a3"], ["fe80::a1", "fe80::a1"]):
            for fail in ("all", "first"):
                for cls in ("other", "sys"):
                    steps = [{"op": "adv", "to": 5000}]
                    for h in sorted(set(hosts)):
                        steps.append({"op": "hold", "key": "w|" + h})
                    for h in hosts:
                        steps.append({"op": "rs", "src": h})
                    steps.append({"op": "adv", "to": 5600})
                    for h in (sorted(set(hosts)) if fail == "all" else [hosts[0]]):
                        steps.append({"op": "failw", "dst": h, "class": cls})
                    for h in sorted(set(hosts)):
                        steps.append({"op": "release", "key": "w|" + h, "nowait": True})
                    steps += [{"op": "wait"}, {"op": "adv", "to": 9000}, {"op": "snap"}, {"op": "adv", "to": 14000}]
                    out.append({"cfg": dict(mode_cfg), "steps": steps, "src": "concurrent-write-failures"})
    return out


def _c10_fixed():
    out = concurrent_write_failures()
    for mode in ("adv", "mon"):
        for k in range(1, 7):
            steps = [{"op": "adv", "to": 5000}] + [{"op": "timeout"} for _ in range(k)] + \
                    [{"op": "adv", "to": 5600}, {"op": "rs", "src": "fe80::a1"}, {"op": "adv", "to": 9000}]
            out.append({"cfg": dict(DEF["cfg"], mode=mode), "steps": steps, "src": "timeouts-%d" % k})
            # timeouts interleaved with a valid message: the budget starts again
            steps = [{"op": "adv", "to": 5000}] + [{"op": "timeout"} for _ in range(4)] + [{"op": "adv", "to": 5400}, {"op": "rs", "src": "fe80::a1"}] + \
                    [{"op": "timeout"} for _ in range(min(k, 4))] + [{"op": "adv", "to": 9000}]
            out.append({"cfg": dict(DEF["cfg"], mode=mode), "steps": steps, "src": "timeouts-reset-%d" % k})
    # every initial RA of a re-established session fails with a system call error while the dials succeed (known finding)
    out.append({"cfg": dict(DEF["cfg"]), "src": "redial-loop",
                "steps": [{"op": "adv", "to": 5000}, {"op": "failw", "dst": "allnodes", "class": "sys"}, {"op": "link"}, {"op": "adv", "to": 9000},
                          {"op": "failw", "dst": "allnodes", "class": ""}, {"op": "adv", "to": 14000}, {"op": "rs", "src": "fe80::a1"}, {"op": "adv", "to": 16000}]})
    # a link event that arrives while the initial RA of a re-established session is still being written
    for cfgv in (DEF["cfg"], dict(DEF["cfg"], mode="mon")):
        out.append({"cfg": dict(cfgv), "src": "link-during-initial-ra",
                    "steps": [{"op": "adv", "to": 5000}, {"op": "hold", "key": "w|allnodes"}, {"op": "link"}, {"op": "link"}, {"op": "adv", "to": 5200},
                              {"op": "release", "key": "w|allnodes"}, {"op": "adv", "to": 9000}, {"op": "rs", "src": "fe80::a1"}, {"op": "adv", "to": 12000}]})
    # invalid messages first, then one timeout, then a valid solicitation: the back-off after the timeout is that of ONE timeout
    for mode in ("adv", "mon"):
        for k in (1, 5, 20, 300):
            steps = [{"op": "adv", "to": 5000}] + [{"op": "rs", "src": "fe80::bad", "hl": 1 + i % 250} for i in range(k)] + \
                    [{"op": "timeout"}, {"op": "rs", "src": "fe80::a1"}, {"op": "adv", "to": 5400}, {"op": "timeout"}, {"op": "timeout"}, {"op": "rs", "src": "fe80::a1"},
                     {"op": "adv", "to": 9000}]
            out.append({"cfg": dict(DEF["cfg"], mode=mode), "steps": steps, "src": "invalid-then-timeout-%d" % k})
    # timeouts interleaved with INVALID messages: those neither consume nor refill the retry budget, nor restart the back-off
    for mode in ("adv", "mon"):
        for a in (1, 3, 4):
            for b in (1, 2):
                for c in (1, 2, 4, 5):
                    steps = [{"op": "adv", "to": 5000}] + [{"op": "timeout"}] * a + \
                            [{"op": "rs", "src": "fe80::bad", "hl": 1 + 7 * i} for i in range(b)] + [{"op": "timeout"}] * c + \
                            [{"op": "adv", "to": 6500}, {"op": "rs", "src": "fe80::a1"}, {"op": "adv", "to": 9000}]
                    out.append({"cfg": dict(DEF["cfg"], mode=mode), "steps": steps, "src": "timeouts-and-invalid-%d-%d-%d" % (a, b, c)})
    # the forwarding-state read fails: in a scheduled transmission, in the comparison with a foreign RA, in the initial RA
    # of a re-established session, in the final RA
    for cls in ("other", "sys"):
        for trig in ([{"op": "rs", "src": "fe80::a1"}], [{"op": "rs", "src": "unspec"}], [{"op": "msg", "kind": "ra", "src": "fe80::b1", "variant": "same"}],
                     [{"op": "msg", "kind": "ra", "src": "fe80::b1", "variant": "diffhl"}], [{"op": "link"}], [{"op": "cancel", "term": True}], []):
            steps = [{"op": "adv", "to": 5000}, {"op": "fwderr", "class": cls}] + trig + \
                    [{"op": "adv", "to": 5600}, {"op": "fwderr", "class": ""}, {"op": "adv", "to": 9000}, {"op": "rs", "src": "fe80::a1"},
                     {"op": "adv", "to": 12000}]
            out.append({"cfg": dict(DEF["cfg"]), "steps": steps, "src": "fwderr"})
            out.append({"cfg": dict(FAST["cfg"]), "steps": steps, "src": "fwderr"})
    for at in (1000, 5000):
        steps = [{"op": "adv", "to": at}, {"op": "wclose"}, {"op": "adv", "to": at + 500}, {"op": "rs", "src": "fe80::a1"}, {"op": "adv", "to": at + 4000},
                 {"op": "rs", "src": "unspec"}, {"op": "adv", "to": at + 9000}, {"op": "cancel", "term": True}]
        out.append({"cfg": dict(DEF["cfg"]), "steps": steps, "src": "watch-closed"})
        out.append({"cfg": dict(DEF["cfg"], mode="mon"), "steps": steps, "src": "watch-closed"})
    # two interface tasks under the real Server.Serve: a fatal failure of one ends both (and Serve), a recoverable one is
    # local to its interface; the other interface keeps serving meanwhile
    for mode in ("adv", "mon"):
        for fault in ([{"op": "readerr", "class": "other"}], [{"op": "readerr", "class": "perm"}], [{"op": "timeout"}] * 5,
                      [{"op": "readerr", "class": "sys"}], [{"op": "link"}],
                      [{"op": "failw", "dst": "fe80::a1", "class": "other"}, {"op": "rs", "src": "fe80::a1"}]):
            for who in ("vf0", "vf1"):
                other = "vf1" if who == "vf0" else "vf0"
                steps = [{"op": "adv", "to": 5000}, {"op": "rs", "src": "fe80::a1", "ifi": other}] + \
                        [dict(f, ifi=who) for f in fault] + \
                        [{"op": "adv", "to": 5400}, {"op": "rs", "src": "2001:db8::a2", "ifi": other}, {"op": "adv", "to": 9000},
                         {"op": "rs", "src": "fe80::a1", "ifi": who}, {"op": "adv", "to": 12000}, {"op": "cancel", "term": True}]
                out.append({"cfg": dict(DEF["cfg"], mode=mode, serve=True, ifaces=2), "steps": steps, "src": "serve-two-interfaces"})
    return out


def solicitation_floods():
    """Large bursts: 64 .. 300 unicast solicitations inside one 500 ms window (every one owed its own RA), with a
    multicast trigger (RS from ::) in the middle of them and the periodic RA falling due while they are pending."""
    out = []
    hosts = ["fe80::a1", "2001:db8::a2", "fd00::a3", "fe80::a4", "fe80::a5"]
    for n in (63, 64, 65, 70, 130, 300):
        for cfgv, t0 in ((DEF["cfg"], 5000), (FAST["cfg"], 5900), (UNI["cfg"], 5000)):
            steps = [{"op": "adv", "to": t0}]
            for i in range(n):
                steps.append({"op": "rs", "src": hosts[i % len(hosts)], "nowait": True})
            steps += [{"op": "wait"}, {"op": "rs", "src": "unspec"}, {"op": "adv", "to": t0 + 100}, {"op": "rs", "src": "unspec"},
                      {"op": "adv", "to": t0 + 9000}, {"op": "rs", "src": "fe80::a1"}, {"op": "adv", "to": t0 + 14000}, {"op": "snap"}]
            out.append({"cfg": dict(cfgv), "steps": steps, "src": "solicitation-flood"})
    return out


def fwd_read_failures():
    """The forwarding state cannot be read (every error class) after it was read fine and has changed since: no RA may be
    generated from a remembered value."""
    out = []
    for cls in ("sys", "other", "notexist", "perm"):
        for trig in ([{"op": "rs", "src": "fe80::a1"}], [{"op": "rs", "src": "unspec"}], [{"op": "msg", "kind": "ra", "src": "fe80::b1", "variant": "same"}],
                     [{"op": "msg", "kind": "ra", "src": "fe80::b1", "variant": "diffhl"}], [{"op": "scrape"}, {"op": "api"}]):
            for flip in (True, False):
                steps = [{"op": "adv", "to": 5000}, {"op": "rs", "src": "fe80::a1"}, {"op": "adv", "to": 6000}] + \
                        ([{"op": "flip", "toggle": True}] if flip else []) + [{"op": "fwderr", "class": cls}] + trig + \
                        [{"op": "adv", "to": 7000}, {"op": "fwderr", "class": ""}, {"op": "adv", "to": 9000}, {"op": "rs", "src": "fe80::a1"},
                         {"op": "adv", "to": 12000}]
                for cfgv in (DEF["cfg"], LEXP["cfg"]):
                    out.append({"cfg": dict(cfgv), "steps": steps, "src": "fwd-read-failure"})
    # the forwarding read held at its gate while a foreign RA / a solicitation is being handled, with a flip meanwhile
    for trig in ([{"op": "msg", "kind": "ra", "src": "fe80::b1", "variant": "same"}], [{"op": "msg", "kind": "ra", "src": "fe80::b1", "variant": "diffhl"}],
                 [{"op": "rs", "src": "fe80::a1"}], [{"op": "rs", "src": "unspec"}]):
        for flip in (True, False):
            steps = [{"op": "adv", "to": 5000}, {"op": "hold", "key": "fwd|vf0"}] + trig + [{"op": "adv", "to": 5600}] + \
                    ([{"op": "flip", "toggle": True}] if flip else []) + [{"op": "release", "key": "fwd|vf0"}, {"op": "adv", "to": 9000},
                     {"op": "rs", "src": "fe80::a1"}, {"op": "adv", "to": 12000}]
            out.append({"cfg": dict(DEF["cfg"]), "steps": steps, "src": "fwd-read-held"})
    return out


def unreachable_solicitors():
    """A solicited unicast RA fails because its destination is unreachable, close to a multicast RA: whatever the error
    handling does, it does not add a multicast RA inside the 3 s spacing."""
    out = []
    for cfgv in (DEF["cfg"], FAST["cfg"]):
        for at in (3100, 4000, 5900, 6200):
            steps = [{"op": "adv", "to": at}, {"op": "failw", "dst": "2001:db8::a2", "class": "unreach"}, {"op": "rs", "src": "unspec"},
                     {"op": "rs", "src": "2001:db8::a2"}, {"op": "adv", "to": at + 1000}, {"op": "failw", "dst": "2001:db8::a2", "class": ""},
                     {"op": "rs", "src": "unspec"}, {"op": "adv", "to": at + 9000}]
            out.append({"cfg": dict(cfgv), "steps": steps, "src": "unreachable-solicitor"})
    return out


def _c08_watch_end():
    """The link-state watcher ends (its subscription channel is closed) at or just before the stop request, as it does when
    the whole server shuts down: still a clean stop with its final RA, not a link change."""
    out = []
    for cfgv in (DEF["cfg"], FAST["cfg"], SRV["cfg"]):
        for term in (True, False):
            for gap in (0, 1, 100):
                steps = [{"op": "adv", "to": 5000}, {"op": "wclose", "nowait": gap == 0}] + ([{"op": "adv", "to": 5000 + gap}] if gap else []) + \
                        [{"op": "cancel", "term": term}, {"op": "adv", "to": 8000}]
                out.append({"cfg": dict(cfgv), "steps": steps, "src": "watcher-ends-at-stop"})
    return out


def _c08_fixed():
    """Transmit latency on the final RA itself (and on a transmission in flight at the stop): the write is held open
    across 0.5 .. 30 s of virtual time; Run may only return after it, and nothing may follow it."""
    out = []
    for cfgv in (DEF["cfg"], FAST["cfg"], SRV["cfg"]):
        for d in (500, 1500, 5000, 30000):
            for term in (True, False):
                steps = [{"op": "adv", "to": 5000}, {"op": "hold", "key": "w|allnodes"}, {"op": "cancel", "term": term},
                         {"op": "adv", "to": 5000 + d}, {"op": "release", "key": "w|allnodes"}, {"op": "adv", "to": 5000 + d + 2000}]
                out.append({"cfg": dict(cfgv), "steps": steps, "src": "slow-final-ra"})
                steps = [{"op": "adv", "to": 5000}, {"op": "hold", "key": "w|fe80::a1"}, {"op": "rs", "src": "fe80::a1"}, {"op": "adv", "to": 5600},
                         {"op": "cancel", "term": term}, {"op": "adv", "to": 5600 + d}, {"op": "release", "key": "w|fe80::a1"},
                         {"op": "adv", "to": 5600 + d + 2000}]
                out.append({"cfg": dict(cfgv), "steps": steps, "src": "slow-write-at-stop"})
    return out


def _c08_no_default_route():
    """The stop arrives while the interface does not advertise itself as a default router (configured lifetime 0,
    forwarding off from the start, forwarding switched off a moment before): the final RA on termination is owed all the
    same (it is what hosts that learned the route earlier act on), and none on reload."""
    out = []
    for base in (DEF["cfg"], SRV["cfg"]):
        for variant in ("life0", "nofwd", "flipoff", "flipoff-late"):
            for term in (True, False):
                cfgv = dict(base)
                steps = [{"op": "adv", "to": 1000}, {"op": "rs", "src": "unspec"}, {"op": "adv", "to": 5000}]
                if variant == "life0":
                    cfgv["life"] = 0
                elif variant == "nofwd":
                    cfgv["fwd"] = False
                elif variant == "flipoff":
                    steps += [{"op": "flip", "val": False}, {"op": "rs", "src": "fe80::a1"}, {"op": "adv", "to": 6000}]
                else:
                    steps += [{"op": "rs", "src": "fe80::a1"}, {"op": "adv", "to": 6000}, {"op": "flip", "val": False}]
                steps += [{"op": "cancel", "term": term}, {"op": "adv", "to": 9000}]
                out.append({"cfg": cfgv, "steps": steps, "src": "stop-without-default-route-" + variant})
    return out


PLANS["C08"]["fixed"] = _c08_fixed() + _c08_watch_end() + _c08_no_default_route()
PLANS["C10"]["fixed"] = _c10_fixed()
PLANS["C10"]["ifis"] = ("vf0", "vf1")
PLANS["C07"]["fixed"] = concurrent_write_failures() + solicitation_floods()
PLANS["C06"]["fixed"] = solicitation_floods() + unreachable_solicitors()


L0 = {"cfg": {"min": 200000, "max": 600000, "life": 0}}
LEXP = {"cfg": {"min": 200000, "max": 600000, "life": 700}}
LAUTO = {"cfg": {"min": 200000, "max": 600000, "life": -1}}
NOFWD = {"cfg": {"min": 200000, "max": 600000, "life": 1800, "fwd": False}}
TWO = {"cfg": {"min": 200000, "max": 600000, "life": 1800, "ifaces": 2}}
FASTNF = {"cfg": {"min": 3000, "max": 4000, "life": -1, "fwd": False}}


def rand_c04(rng):
    steps, t = [], 0
    for i in range(rng.randrange(5, 40)):
        t += rng.choice([0, 0, 1, 250, 499, 500, 1000, 2999, 3000, 3001])
        steps.append({"op": "adv", "to": t})
        k = rng.choice(["rs", "rs", "flip", "flip", "scrape", "api", "radiff", "rasame"])
        ifi = rng.choice(["vf0", "vf0", "vf1"])
        if k == "rs":
            steps.append({"op": "rs", "src": rng.choice(["fe80::a1", "unspec", "2001:db8::a2"]), "ifi": ifi})
        elif k == "flip":
            steps.append({"op": "flip", "toggle": True, "ifi": ifi})
        elif k in ("scrape", "api"):
            steps.append({"op": k})
        else:
            steps.append({"op": "msg", "kind": "ra", "variant": "diffhl" if k == "radiff" else "same", "src": "fe80::dd", "ifi": ifi})
    steps.append({"op": "adv", "to": t + 7000})
    if rng.random() < 0.5:
        steps.append({"op": "cancel", "term": rng.random() < 0.6})
    return steps


PLANS["C04"] = dict(
    mc=[("c04", dict(Hosts='{"h1"}', Kinds='{"radiff", "rasame"}', MaxIn=2, MaxT=7, MaxFlips=2, MaxQueries=2, MaxHolds=0),
         dict(MaxIn=3, MaxT=8, MaxFlips=2, MaxQueries=2)),
        ("c04zero", dict(Hosts='{"h1"}', Kinds='{"radiff"}', CfgLife=0, MaxIn=2, MaxT=5, MaxFlips=2, MaxQueries=1), dict(MaxIn=3))],
    env=[("a", dict(Srcs='{"h1", "unspec"}', Kinds='{"radiff", "rasame", "scrape", "api"}', MaxFlips=2, Terms="{TRUE, FALSE}",
                    MaxEv=4, MaxT=4), dict(MaxEv=5, MaxT=5), [DEF, L0, LEXP, LAUTO, NOFWD, FASTNF]),
         ("gate", dict(Srcs='{"h1"}', Kinds="{}", HoldDsts='{"fwdgate"}', MaxFlips=2, MaxEv=5, MaxT=2), dict(MaxEv=6), [DEF, LEXP])],
    cap_quick=1800, cap_thorough=14000,
    ifis=("vf0", "vf1"),
    nrand=60, nrand_thorough=1500, rand_variants=[TWO, dict(cfg=dict(TWO["cfg"], life=0)), dict(cfg=dict(TWO["cfg"], life=700, fwd=False))],
    rand=rand_c04,
    nontrivial=lambda s: any(x["op"] == "flip" for x in s["steps"]) and any(x["op"] in ("rs", "msg", "scrape", "api", "cancel") for x in s["steps"]),
    rule="scenarios = TLC-enumerated histories over {RS from a host / from ::, consistent and inconsistent foreign RA, metrics "
         "scrape, debug-API request, forwarding flip, stop(term|reload)} and histories with the forwarding read held at a gate while "
         "the flag flips, x configurations {default, lifetime 0, explicit, auto, forwarding initially off, fast periodic}; random "
         "histories on two interfaces sharing one Metrics and one API handler; non-trivial = at least one flip and one RA-generating event",
    assumptions=["the forwarding flag is the harness State stub; every read is logged with the value returned",
                 "'all other content unchanged' is checked as equality of a digest of the RA without its router lifetime"],
)


PLANS["C04"]["fixed"] = fwd_read_failures()


def make(pid):
    def f(p, tier, replay):
        return adv_check(p, tier, replay, PLANS[p])
    return f
