NOTES = ("Model-based verification with explicit TLA+ specifications (spec/): implementation-shaped models composed "
         "with requirement monitors are model-checked exhaustively by TLC within small bounds; TLC-enumerated "
         "environment histories / outcome scripts / vectors are replayed into the real code (go test -overlay, "
         "testing/synctest virtual time, boundary stubs as probes and gates); every recorded execution is validated "
         "by TLC against the requirement specification, which alone decides the verdict. See DESIGN.md.")

ENGINES = [
    {"name": "advertiser", "path": "spec/Advertiser.tla spec/AdvReq.tla spec/AdvEnv.tla spec/AdvTrace.tla harness/corerad lib/adv.py lib/checks_adv.py",
     "serves_properties": ["C06", "C07", "C08", "C09", "C10"],
     "kind_free_text": "TLC model checking of the goroutine-level advertiser model composed with the AdvReq requirement monitor; TLC-enumerated environment histories replayed into the real Advertiser/Monitor under testing/synctest; TLC trace validation of the recorded events"},
    {"name": "dialer", "path": "spec/Dialer.tla spec/DialReq.tla spec/DialTrace.tla harness/system lib/dial.py lib/checks_dial.py",
     "serves_properties": ["C10", "C11"],
     "kind_free_text": "TLC model checking of the Dialer model composed with the DialReq monitor; every outcome script to a depth bound replayed into the real Dialer (dial() call targets rewritten at build time); TLC trace validation"},
]

_adv_note = ("Trusted: TLC, the Go toolchain (go1.26.8 testing/synctest), the harness stubs for system.Conn/State/"
             "metrics/DialFunc; assumes virtual-time executions are representative of real-time ones; exhaustive "
             "only within the model constants recorded in the evidence")

CLAIMS = {
    "C06": dict(engine="advertiser", design_ref="4 C06; 2", technique="TLA+ model checking (TLC) + TLC-generated histories replayed under synctest + TLC trace validation",
                text="TLC explores every interleaving of the scheduler, multicast loop, listener and workers for all arrival histories of <=3 (quick) / <=4 (thorough) events on a 500 ms grid and checks the AdvReq spacing/service clauses; the same histories (and random bursts) are run on the real advertiser in virtual time and each trace is validated by TLC against AdvReq with the real constants (3000 ms).",
                note=_adv_note),
    "C07": dict(engine="advertiser", design_ref="4 C07; 2", technique="TLA+ model checking (TLC) + replay under synctest + TLC trace validation",
                text="Exhaustive over <=3 solicitations from two hosts and :: with held transmits in the model (exactly-once, destination, delay bound, counters, unicast-only); TLC-enumerated histories and bursts beyond the request channel capacity replayed on the real code; traces validated by TLC against AdvReq (500 ms bound, counter conservation at every quiescent point).",
                note=_adv_note),
    "C08": dict(engine="advertiser", design_ref="4 C08; 2", technique="TLA+ model checking (TLC) + forced schedules through gates + TLC trace validation",
                text="TLC explores every stop instant relative to pending / in-flight transmissions (driver-held WriteTo gates) for terminate and reload; the enumerated histories are replayed as forced schedules on the real advertiser; AdvReq decides: exactly one final RA, last, none on reload, prompt clean return, nothing after return, no leak.",
                note=_adv_note),
    "C09": dict(engine="advertiser", design_ref="4 C09; 2", technique="TLA+ model checking (TLC) + replay under synctest + TLC trace validation",
                text="Model: all sequences of valid/invalid/timeout messages beyond the (scaled) retry budget; real code: TLC-enumerated sequences, runs of 1..12 invalid messages, every hop limit 0..254, NS/NA, for advertiser, unicast-only advertiser and monitor; AdvReq: counted invalid, nothing else follows, listener receiving again at every quiescent point.",
                note=_adv_note),
    "C10": dict(engine="advertiser+dialer", design_ref="4 C10; 2", technique="TLA+ model checking (TLC) + fault-sequence replay + TLC trace validation",
                text="Session level: every injection point of read/write errors, timeouts and link events into a running advertiser/monitor (model: all interleavings; real code: enumerated histories) judged by AdvReq (prompt teardown, no use after cleanup, back-off 0..200 ms, 5 timeouts). Dialer level: every script of dial/task outcomes and cancel placements to depth 4 (6) replayed into the real Dialer and judged by DialReq (classification, <=50 attempts, 250 ms ladder capped at 3 s, prompt clean return). Task-level recovery policy (a recoverable cause is followed by a re-dial, an unrecoverable one never, nothing ends the task without a cause) and two-interface runs under the real Server.Serve.",
                note=_adv_note + "; one known finding (zero-delay re-dial loop when every dial succeeds, D19) is listed in known_findings.json"),
    "C11": dict(engine="dialer", design_ref="4 C11; 2", technique="TLA+ model checking (TLC) + outcome-script replay through a rewritten dial() + TLC trace validation",
                text="TLC checks the Dialer model (dial unfolded into listen/get/set, cleanup, restore) against DialReq for every outcome script to the depth bound, for advertise mode with autoconf initially on/off and monitor mode; the scripts are replayed into the real Dialer whose dial() runs with substituted listen functions and a recording State; DialReq decides exactly-once cleanup, socket closure on every path and autoconf restore.",
                note="Trusted: TLC, go1.26.8, the textual rewrite of three call targets inside dial(); real sockets/sysctls are not exercised"),
}

_vec_note = ("Trusted: TLC, the Go toolchain, the harness seam named in the evidence assumptions; the requirement operator is "
             "evaluated by TLC on every recorded observation; exhaustive only within the enumerated domain")
_tv = "TLA+ requirement specification + TLC-enumerated / generated inputs run on the real code + TLC validation of every observation"

CLAIMS.update({
    "C01": dict(engine="config-ra", design_ref="4 C01", technique=_tv,
                text="RA!BuildRA(elaborated interface, system state) is the requirement; documents covering every stanza kind (0..n, static, wildcard, deprecated, pref64, names groups) x system states are parsed by the real code, each interface prepared with its own hardware address, its RA built five times and compared by TLC with BuildRA; idempotence and configuration immutability are observed directly.",
                note=_vec_note),
    "C02": dict(engine="config-ra", design_ref="4 C02; appendix D", technique=_tv,
                text="Config!Accept / Config!Elab formalise the statement's constraint table; boundary documents for every key (limit-1, limit, limit+1, omitted, auto, infinite, negative, sub-second, > 2^32-1 s, malformed) with interaction products, random structured documents and raw / mutated bytes go through the real Parse; TLC decides accepted = Accept(doc) and elaboration = Elab(doc) for each.",
                note=_vec_note),
    "C03": dict(engine="config-ra", design_ref="4 C03", technique=_tv,
                text="For every document the real parser accepts (C01 set plus the whole C02 boundary stream), each RA is encoded and decoded with the ndp codec; TLC checks RA!Encodable and decoded = RA!OnWire(ra) (truncation to each field's unit). The byte codec is exercised, not modelled; the specification decides the gate between validator ranges and field widths.",
                note=_vec_note),
    "C04": dict(engine="advertiser", design_ref="4 C04", technique="TLA+ model checking (TLC) + replay under synctest + TLC trace validation",
                text="Model: every interleaving of forwarding flips with RA generations on the worker, consistency-check, final, scrape and API paths (the forwarding read is its own step). Real code: TLC-enumerated flip/generate histories incl. flips while the forwarding read is held at a gate, two interfaces sharing Metrics and the API handler; AdvReq requires every transmitted / hooked lifetime to be explained by its own fresh forwarding read, gauges and API lifetime to equal the read, one log line per overridden generation.",
                note=_adv_note),
    "C05": dict(engine="advertiser", design_ref="4 C05", technique="TLA+ (TLC over the accepted min/max grid) + scripted-draw vectors + quiet virtual-time runs validated by TLC",
                text="MDelayMC: TLC checks the transcription of multicastDelay against Waits!AllowedWait for every whole-second max (4..1800 s in the thorough tier) x every accepted min x index x extreme draws, and boundary minimums with sub-second parts; vectors run through the real function with a scripted random source; quiet synctest runs of the real advertiser over >= 9 periods are judged by AdvReq (each gap an allowed wait; never overdue).",
                note=_adv_note),
    "C12": dict(engine="verify", design_ref="4 C12", technique=_tv,
                text="Verify!Problems is the requirement bag; per-aspect exhaustive {absent, v1, v2,...}^2 crosses, pairwise products, random RAs and self round trips go through verifyRAs and Advertiser.handle (distinct structs and after the wire); TLC compares problems, counters, log lines and hook firing with the bag.",
                note=_vec_note),
    "C13": dict(engine="wildcards", design_ref="4 C13", technique="TLA+ model checking (Impl = Req over all listings) + vectors + TLC validation",
                text="WildcardsMC: TLC checks that the transcribed loop equals the set-theoretic requirement for every listing (sequence with repetition) of <= 3 (4) pool entries; the same listings and random longer ones run through the real Prefix plugin; TLC validates each result against Wildcards!ReqPrefixes.",
                note=_vec_note),
    "C14": dict(engine="wildcards", design_ref="4 C14", technique="TLA+ model checking (Impl = Req, order axioms) + vectors + TLC validation",
                text="TLC checks that folding the transcribed betterRDNSS over any listing yields the minimum of the documented ranking and that the ranking is a strict total order on the pool; listings x static server lists run through the real RDNSS plugin and are validated against Wildcards!ReqServers.",
                note=_vec_note),
    "C15": dict(engine="wildcards", design_ref="4 C15", technique="TLA+ model checking (Impl = Req) + vectors + TLC validation",
                text="TLC checks the transcribed route loop against the requirement (maximal, non-overlapping, sorted, duplicate-free) over every listing of <= 3 (4) entries of a nested-prefix pool; the listings and random dumps run through the real Route plugin and are validated against Wildcards!ReqRoutes.",
                note=_vec_note),
    "C16": dict(engine="wildcards", design_ref="4 C16", technique="TLA+ model checking (lemmas over all reading sequences) + vectors + TLC validation",
                text="DeprecationMC: TLC checks monotonicity, non-negativity, zero-from-deadline and preferred <= valid for every non-decreasing sequence of <= 3 (4) clock readings around the deadlines; each sequence is replayed on one plugin instance at 1 s and 1 ns units and validated against Deprecation!ReqLifetimes.",
                note=_vec_note),
    "C17": dict(engine="observe", design_ref="4 C17", technique=_tv,
                text="ObsTrace: for documents x system states x lifecycle {never prepared, up} x state-read failure, a Prometheus collection and the HTTP routes are exercised on the wiring of cmd/corerad (pedantic registry, shared plugin pointers); TLC compares samples with the projection of RA!BuildRA(Config!Elab(doc)), the API JSON with its whole-second view, and route gating; a process crash is a violation.",
                note=_vec_note + "; one known finding (duplicate label sets) is listed in known_findings.json"),
    "C18": dict(engine="monitor", design_ref="4 C18", technique="TLA+ requirement monitor + message sequences on the real Monitor + TLC validation of the whole store after every message",
                text="MonReq gives the expected metric store after each message; every ordered pair from a message pool (zones, zero/infinite lifetimes, repeats at four gaps) and random sequences are delivered to the real Monitor in virtual time; TLC compares the whole observed store with the expected one at every quiescent point.",
                note=_vec_note),
    "C19": dict(engine="watcher", design_ref="4 C19", technique="TLA+ model checking (WatchMC) + script replay with state comparison + TLC validation",
                text="WatchMC explores every Subscribe/notify/drain/end sequence to depth 4 (5) and all 127 masks x 7 changes; scripts are replayed on the real Watcher comparing the buffered count of every subscriber after every call and each drained sequence and closed-ness; overflow chains around the 8-slot buffer; concurrent runs judged for ordered selection and closure.",
                note=_vec_note),
    "C20": dict(engine="server", design_ref="4 C20", technique="TLA+ model checking (Server.tla and HttpTask.tla with ServReq) + script replay on the real Serve / httpTask + TLC validation",
                text="Server.tla explores every interleaving of 2 (3) stub tasks x behaviours x signal kinds composed with ServReq; quiescent histories are replayed on the real Serve with the real signal task, terminator and a unix-datagram notify socket; BuildTasks over all mixes of <= 3 interfaces; the HTTP retry loop under virtual time; HttpTask.tla models httpTask.Run against an occupied address and a cancellation, and the real task is run on a loopback address (ready only when listening, retry 3 s apart, handler served, prompt nil return, nothing served afterwards).",
                note=_vec_note),
})
ENGINES += [
    {"name": "config-ra", "path": "spec/Config.tla spec/RA.tla spec/Durations.tla spec/ConfigTrace.tla spec/RATrace.tla harness/config lib/cfgdoc.py lib/checks_cfg.py", "serves_properties": ["C01", "C02", "C03"], "kind_free_text": "requirement operators evaluated by TLC on documents parsed / RAs built by the real code"},
    {"name": "wildcards", "path": "spec/Wildcards.tla spec/WildcardsMC.tla spec/Deprecation.tla spec/DeprecationMC.tla spec/VecTrace.tla harness/plugin lib/checks_vec.py", "serves_properties": ["C13", "C14", "C15", "C16"], "kind_free_text": "Impl = Req model checking over bounded listings; vectors validated by TLC"},
    {"name": "verify", "path": "spec/Verify.tla spec/VerifyTrace.tla harness/corerad/vf_verify.go", "serves_properties": ["C12"], "kind_free_text": "requirement bag evaluated by TLC"},
    {"name": "monitor", "path": "spec/MonReq.tla spec/MonTrace.tla lib/checks_mon.py", "serves_properties": ["C18"], "kind_free_text": "store monitor"},
    {"name": "watcher", "path": "spec/WatchReq.tla spec/WatchMC.tla spec/WatchTrace.tla harness/netstate lib/checks_misc.py", "serves_properties": ["C19"], "kind_free_text": "model checking + state-comparing replay"},
    {"name": "server", "path": "spec/Server.tla spec/HttpTask.tla spec/ServReq.tla spec/ServTrace.tla harness/corerad/vf_server.go lib/checks_misc.py", "serves_properties": ["C20"], "kind_free_text": "model checking + replay"},
    {"name": "observe", "path": "spec/ObsTrace.tla harness/corerad/vf_observe.go lib/checks_cfg.py", "serves_properties": ["C17"], "kind_free_text": "projection of BuildRA compared with gathered samples / API JSON"},
]

NOT_YET = {}
