NOTES = ("Model-based verification with explicit TLA+ specifications (spec/): implementation-shaped models composed "
         "with requirement monitors are model-checked exhaustively by TLC within small bounds; TLC-enumerated "
         "environment histories / outcome scripts / vectors are replayed into the real code (go test -overlay, "
         "testing/synctest virtual time, boundary stubs as probes and gates); every recorded execution is validated "
         "by TLC against the requirement specification, which alone decides the verdict. See DESIGN.md.")

ENGINES = [
    {"name": "advertiser", "path": "spec/Advertiser.tla spec/AdvReq.tla spec/AdvEnv.tla spec/AdvTrace.tla harness/corerad lib/adv.py lib/checks_adv.py",
     "serves_properties": ["C06", "C07", "C08", "C09", "C10"],
     "kind_free_text": "TLC model checking of the goroutine-level advertiser model composed with the AdvReq requirement monitor; TLC-enumerated environment histories replayed into the real Advertiser/Monitor under testing/synctest; TLC trace validation of the recorded events"},
    {"name": "dialer", "path": "spec/Dialer.tla spec/DialReq.tla spec/DialTrace.tla harness/system lib/dial.py lib/checks_dial.py",
     "serves_properties": ["C10", "C11"],
     "kind_free_text": "TLC model checking of the Dialer model composed with the DialReq monitor; every outcome script to a depth bound replayed into the real Dialer (dial() call targets rewritten at build time); TLC trace validation"},
]

_adv_note = ("Trusted: TLC, the Go toolchain (go1.26.8 testing/synctest), the harness stubs for system.Conn/State/"
             "metrics/DialFunc; assumes virtual-time executions are representative of real-time ones; exhaustive "
             "only within the model constants recorded in the evidence")

CLAIMS = {
    "C06": dict(engine="advertiser", design_ref="4 C06; 2", technique="TLA+ model checking (TLC) + TLC-generated histories replayed under synctest + TLC trace validation",
                text="TLC explores every interleaving of the scheduler, multicast loop, listener and workers for all arrival histories of <=3 (quick) / <=4 (thorough) events on a 500 ms grid and checks the AdvReq spacing/service clauses; the same histories (and random bursts) are run on the real advertiser in virtual time and each trace is validated by TLC against AdvReq with the real constants (3000 ms).",
                note=_adv_note),
    "C07": dict(engine="advertiser", design_ref="4 C07; 2", technique="TLA+ model checking (TLC) + replay under synctest + TLC trace validation",
                text="Exhaustive over <=3 solicitations from two hosts and :: with held transmits in the model (exactly-once, destination, delay bound, counters, unicast-only); TLC-enumerated histories and bursts beyond the request channel capacity replayed on the real code; traces validated by TLC against AdvReq (500 ms bound, counter conservation at every quiescent point).",
                note=_adv_note),
    "C08": dict(engine="advertiser", design_ref="4 C08; 2", technique="TLA+ model checking (TLC) + forced schedules through gates + TLC trace validation",
                text="TLC explores every stop instant relative to pending / in-flight transmissions (driver-held WriteTo gates) for terminate and reload; the enumerated histories are replayed as forced schedules on the real advertiser; AdvReq decides: exactly one final RA, last, none on reload, prompt clean return, nothing after return, no leak.",
                note=_adv_note),
    "C09": dict(engine="advertiser", design_ref="4 C09; 2", technique="TLA+ model checking (TLC) + replay under synctest + TLC trace validation",
                text="Model: all sequences of valid/invalid/timeout messages beyond the (scaled) retry budget; real code: TLC-enumerated sequences, runs of 1..12 invalid messages, every hop limit 0..254, NS/NA, for advertiser, unicast-only advertiser and monitor; AdvReq: counted invalid, nothing else follows, listener receiving again at every quiescent point.",
                note=_adv_note),
    "C10": dict(engine="advertiser+dialer", design_ref="4 C10; 2", technique="TLA+ model checking (TLC) + fault-sequence replay + TLC trace validation",
                text="Session level: every injection point of read/write errors, timeouts and link events into a running advertiser/monitor (model: all interleavings; real code: enumerated histories) judged by AdvReq (prompt teardown, no use after cleanup, back-off 0..200 ms, 5 timeouts). Dialer level: every script of dial/task outcomes and cancel placements to depth 4 (6) replayed into the real Dialer and judged by DialReq (classification, <=50 attempts, 250 ms ladder capped at 3 s, prompt clean return).",
                note=_adv_note),
    "C11": dict(engine="dialer", design_ref="4 C11; 2", technique="TLA+ model checking (TLC) + outcome-script replay through a rewritten dial() + TLC trace validation",
                text="TLC checks the Dialer model (dial unfolded into listen/get/set, cleanup, restore) against DialReq for every outcome script to the depth bound, for advertise mode with autoconf initially on/off and monitor mode; the scripts are replayed into the real Dialer whose dial() runs with substituted listen functions and a recording State; DialReq decides exactly-once cleanup, socket closure on every path and autoconf restore.",
                note="Trusted: TLC, go1.26.8, the textual rewrite of three call targets inside dial(); real sockets/sysctls are not exercised"),
}

NOT_YET = {}
