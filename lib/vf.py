"""Shared plumbing for /verif/check: temp dirs, TLC runner, Go overlay runner,
evidence writer, verdict printing. Python 3 standard library only."""
import atexit, json, os, re, shutil, subprocess, sys, tempfile, time, glob

VERIF = os.path.dirname(os.path.dirname(os.path.abspath(__file__)))
REPO = os.environ.get("VERIF_REPO", "/repo")
SPEC = os.path.join(VERIF, "spec")
HARNESS = os.path.join(VERIF, "harness")
GO = os.environ.get("VERIF_GO", "go1.26.8")
TLA_JAR = "/opt/veriftools/tla/tla2tools.jar"
NCPU = os.cpu_count() or 4

_tmpdirs = []


def mktmp(prefix="vf-"):
    base = os.environ.get("VERIF_TMP", "/var/tmp")
    os.makedirs(base, exist_ok=True)
    d = tempfile.mkdtemp(prefix=prefix, dir=base)
    _tmpdirs.append(d)
    return d


def _cleanup():
    if os.environ.get("VERIF_KEEP"):
        return
    for d in _tmpdirs:
        shutil.rmtree(d, ignore_errors=True)


atexit.register(_cleanup)


def seed():
    try:
        return int(os.environ.get("VERIF_SEED", "1"))
    except ValueError:
        return 1


class DataRace(Exception):
    """The race detector reported a data race in a -race run of the harness (out = the go test output)."""
    def __init__(self, out):
        Exception.__init__(self, "data race")
        self.out = out


class Infra(Exception):
    """Infrastructure failure: exit 2, never a verdict."""


class ProductCrash(Exception):
    """The test binary died with a Go panic / fatal error raised outside the
    harness' own recover()s, i.e. in a goroutine of the code under test."""
    def __init__(self, out):
        Exception.__init__(self, "code under test crashed the process")
        self.out = out


# --------------------------------------------------------------------- TLC --

def _tlc_classpath():
    cps = [TLA_JAR]
    for p in glob.glob("/opt/veriftools/tla/*.jar"):
        if p not in cps:
            cps.append(p)
    return ":".join(cps)


def tlc(module, cfg, workdir=None, workers=None, timeout=900, extra_files=(), simulate=None,
        depth=None, deque=False, coverage=False, heap="6g", seed_=None, quiet_fail=False):
    """Run TLC on spec/<module>.tla with spec/<cfg>. Returns a dict with
    states (distinct), generated, printed (list of PrintT payload lines),
    ok (no violation), violation (text), out (raw), wall_s.
    The run happens in a private copy of spec/ so nothing litters /verif."""
    wd = workdir or mktmp("vf-tlc-")
    for f in os.listdir(SPEC):
        if f.endswith(".tla") or f.endswith(".cfg") or f.endswith(".json"):
            shutil.copy(os.path.join(SPEC, f), wd)
    for src in extra_files:
        shutil.copy(src, wd)
    meta = os.path.join(wd, "meta-" + module + "-" + os.path.basename(cfg).replace(".cfg", ""))
    jto = "-Djava.io.tmpdir=%s -Xss64m -Xmx%s" % (wd, heap)
    if deque:
        jto += " -Dtlc2.tool.queue.IStateQueue=StateDeque"
    env = dict(os.environ)
    env["JAVA_TOOL_OPTIONS"] = jto
    cmd = ["java", "-XX:+UseParallelGC", "-cp", _tlc_classpath(), "tlc2.TLC",
           "-metadir", meta, "-noGenerateSpecTE", "-config", cfg]
    if simulate:
        cmd += ["-simulate", simulate]
        if depth:
            cmd += ["-depth", str(depth)]
    if coverage:
        cmd += ["-coverage", "1"]
    cmd += ["-workers", str(workers or NCPU)]
    if seed_ is not None:
        cmd += ["-seed", str(seed_)]
    cmd += [module]
    t0 = time.time()
    try:
        p = subprocess.run(cmd, cwd=wd, env=env, stdout=subprocess.PIPE, stderr=subprocess.STDOUT,
                           timeout=timeout, text=True, errors="replace")
    except subprocess.TimeoutExpired:
        raise Infra("TLC timeout after %ss: %s %s" % (timeout, module, cfg))
    out = p.stdout
    res = {"out": out, "wall_s": time.time() - t0, "rc": p.returncode, "workdir": wd}
    m = re.search(r"(\d+) states generated, (\d+) distinct states found", out)
    res["generated"] = int(m.group(1)) if m else 0
    res["states"] = int(m.group(2)) if m else 0
    res["printed"] = _printed(out)
    viol = None
    for pat in (r"Error: Invariant (\S+) is violated", r"Error: Action property (\S+) is violated",
                r"Error: Temporal properties were violated", r"Error: Deadlock reached",
                r"Error: Evaluating invariant (\S+) failed", r"Error: The postcondition",
                r"Error: Assumption .* is false"):
        mm = re.search(pat, out)
        if mm:
            viol = mm.group(0)
            break
    res["violation"] = viol
    finished = "Model checking completed" in out or "Finished in" in out or simulate
    hard = re.search(r"Error: (?!Invariant|Action property|Temporal|Deadlock|The postcondition)(.*)", out)
    if viol is None and (p.returncode != 0 or not finished):
        if not quiet_fail:
            sys.stderr.write(out[-1800:])
        raise Infra("TLC failed (rc=%s) on %s %s: %s" % (p.returncode, module, cfg,
                                                       hard.group(0) if hard else "see output"))
    res["ok"] = viol is None
    return res


def _printed(out):
    """PrintT(x) lines: TLC prints the value on its own line. We only collect
    lines that look like our JSON payloads (quoted strings starting with {)."""
    res = []
    for line in out.splitlines():
        line = line.strip()
        if line.startswith('"{') and line.endswith('}"'):
            try:
                res.append(json.loads(json.loads(line)))
            except Exception:
                try:
                    res.append(json.loads(line[1:-1].replace('\\"', '"').replace("\\\\", "\\")))
                except Exception:
                    pass
    return res


def tlc_state_value(out, var):
    """Extract the value of a variable from the last state printed in a TLC
    error trace (single-line values only)."""
    vals = re.findall(r"^/\\ %s = (.*)$" % re.escape(var), out, re.M)
    return vals[-1] if vals else None


def sany(module, wd=None):
    wd = wd or mktmp("vf-sany-")
    for f in os.listdir(SPEC):
        if f.endswith(".tla"):
            shutil.copy(os.path.join(SPEC, f), wd)
    env = dict(os.environ)
    env["JAVA_TOOL_OPTIONS"] = "-Djava.io.tmpdir=%s" % wd
    p = subprocess.run(["java", "-cp", _tlc_classpath(), "tla2sany.SANY", module + ".tla"], cwd=wd, env=env,
                       stdout=subprocess.PIPE, stderr=subprocess.STDOUT, text=True, timeout=120)
    ok = p.returncode == 0 and "rror" not in p.stdout.replace("Semantic errors:", "")
    return ok, p.stdout


# ---------------------------------------------------------------------- Go --

def go_env():
    env = dict(os.environ)
    env.update({"GOTOOLCHAIN": "local", "GOPROXY": "off", "GOSUMDB": "off", "GOFLAGS": "",
                "GODEBUG": "asynctimerchan=0", "CGO_ENABLED": env.get("CGO_ENABLED", "0")})
    return env


def rewrite_dial(tmp):
    """Copy of REPO/internal/system/dialer.go in which the three package-level
    call targets inside (*Dialer).dial are renamed to harness functions.
    Returns the path, or None if the function no longer has that shape."""
    src = os.path.join(REPO, "internal/system/dialer.go")
    text = open(src).read()
    m = re.search(r"func \(d \*Dialer\) dial\(\) \(\*DialContext, error\) \{", text)
    if not m:
        return None
    i = m.end()
    depth = 1
    while i < len(text) and depth > 0:
        if text[i] == "{":
            depth += 1
        elif text[i] == "}":
            depth -= 1
        i += 1
    body = text[m.end():i]
    new = body
    for a, b in (("lookupInterface(", "vfLookupInterface("), ("checkInterface(", "vfCheckInterface("),
                 ("dialNDP(", "vfDialNDP(")):
        if new.count(a) != 1:
            return None
        new = new.replace(a, b)
    out = os.path.join(tmp, "dialer_rewritten.go")
    open(out, "w").write(text[:m.end()] + new + text[i:])
    return out


def overlay(tmp, pkgs, replace=None):
    """Build an overlay JSON. pkgs: {repo-relative package dir: [harness files]}.
    Files from harness/common are templated with the package name. Test harness
    files get a _test.go name; files named *_export.go are added as non-test."""
    repl = {}
    for pkgdir, files in pkgs.items():
        pkgname = os.path.basename(pkgdir)
        if pkgdir.startswith("cmd/"):
            pkgname = "main"
        for f in files:
            src = f if os.path.isabs(f) else os.path.join(HARNESS, f)
            base = os.path.basename(src)
            text = open(src).read()
            if text.startswith("package PKG"):
                text = text.replace("package PKG", "package " + pkgname, 1)
                gen = os.path.join(tmp, "gen_%s_%s" % (pkgname, base))
                open(gen, "w").write(text)
                src = gen
            if base.endswith("_export.go"):
                dst = os.path.join(REPO, pkgdir, "zz_" + base)
            else:
                dst = os.path.join(REPO, pkgdir, "zz_" + base[:-3] + "_test.go")
            repl[dst] = src
    for rel, src in (replace or {}).items():
        repl[os.path.join(REPO, rel)] = src
    path = os.path.join(tmp, "overlay.json")
    json.dump({"Replace": repl}, open(path, "w"), indent=1)
    return path


def go_test(pkgs, pkgdir, run, env=None, timeout=1200, race=False, tmp=None, cover=None, replace=None):
    """go test -overlay ... -run <run> ./<pkgdir>/ inside REPO. Returns output.
    Raises Infra on build failure or non-zero exit (harness tests never fail on
    purpose: verdicts come from trace validation)."""
    tmp = tmp or mktmp("vf-go-")
    ov = overlay(tmp, pkgs, replace)
    e = go_env()
    e.update(env or {})
    cmd = [GO, "test", "-overlay", ov, "-vet=off", "-count=1", "-timeout", "%ds" % timeout, "-run", run]
    if race:
        cmd.append("-race")
        e["CGO_ENABLED"] = "1"
    covdir = os.environ.get("VERIF_COVER")          # tools/coverage.py: statement coverage of the real code by the drivers
    if covdir and not cover:
        os.makedirs(covdir, exist_ok=True)
        cover = tempfile.mktemp(prefix="cov-", suffix=".out", dir=covdir)
    cwd = REPO
    if cover:
        # the cover tool cannot instrument files that exist only in an overlay: materialise tree + overlay in a scratch copy
        cwd = os.path.join(tmp, "covtree")
        subprocess.run(["rsync", "-a", "--exclude", ".git", REPO + "/", cwd + "/"], check=True)
        for dst, src in json.load(open(ov))["Replace"].items():
            shutil.copyfile(src, os.path.join(cwd, os.path.relpath(dst, REPO)))
        cmd = [c for c in cmd if c not in ("-overlay", ov)]
        cmd += ["-coverprofile", cover, "-coverpkg", "./..."]
    cmd.append("./" + pkgdir + "/")
    t0 = time.time()
    try:
        p = subprocess.run(cmd, cwd=cwd, env=e, stdout=subprocess.PIPE, stderr=subprocess.STDOUT, text=True,
                           timeout=timeout + 60, errors="replace")
    except subprocess.TimeoutExpired:
        raise Infra("go test timeout: %s %s" % (pkgdir, run))
    if p.returncode != 0:
        o = p.stdout
        if re.search(r"^panic: VF-PRODUCT:", o, re.M):      # a stub was misused by the code under test (nil connection, ...)
            raise ProductCrash(o)
        if re.search(r"^panic: vf:", o, re.M):           # the harness's own assertions all start with "vf:"
            sys.stderr.write(o[-3000:])
            raise Infra("the harness panicked (not the code under test) in %s -run %s" % (pkgdir, run))
        if "VF-HANG scenario=" in o:                    # the harness watchdog: a goroutine of the code under test is deadlocked
            raise ProductCrash(o)
        if race and "WARNING: DATA RACE" in o and "[build failed]" not in o:
            raise DataRace(o)
        if re.search(r"^(panic:|fatal error:)", o, re.M) and "[build failed]" not in o and "[setup failed]" not in o:
            # whose crash is it? the first frame outside the Go distribution, below the panic, names the file
            m = re.search(r"^(?:panic:|fatal error:).*?\n((?:.*\n)*)", o, re.M)
            origin = None
            for fm in re.finditer(r"^\t(/\S+\.go):\d+", m.group(1) if m else "", re.M):
                f = fm.group(1)
                if f.startswith(os.path.realpath(REPO) + "/") or f.startswith(REPO + "/") or "/covtree/" in f:
                    origin = f          # the tree under test (production files and the overlaid harness files live there)
                    break
            if origin and re.search(r"/(zz_)?vf_[^/]*\.go$|/gen_[^/]*\.go$", origin):
                sys.stderr.write(o[-3000:])
                raise Infra("the harness crashed (not the code under test) at %s in %s -run %s" % (origin, pkgdir, run))
            raise ProductCrash(o)
        sys.stderr.write(o[-3000:])
        raise Infra("go test failed (rc=%d) for %s -run %s" % (p.returncode, pkgdir, run))
    return p.stdout, time.time() - t0


def read_ndjson(path):
    out = []
    with open(path) as f:
        for line in f:
            line = line.strip()
            if line:
                out.append(json.loads(line))
    return out


def write_ndjson(path, rows):
    with open(path, "w") as f:
        for r in rows:
            f.write(json.dumps(r, separators=(",", ":"), sort_keys=True))
            f.write("\n")


# ---------------------------------------------------------------- evidence --

def known_findings():
    p = os.path.join(VERIF, "known_findings.json")
    if not os.path.exists(p):
        return {"findings": [], "fixed": []}
    return json.load(open(p))


def write_evidence(pid, tier, level, coverage, assumptions, wall_s, violations=0, extra=None):
    ev = {"property_id": pid, "tier": tier, "seed": seed(), "level": level, "coverage": coverage,
          "assumptions": assumptions, "wall_s": round(wall_s, 2), "violations": violations}
    if extra:
        ev.update(extra)
    evdir = os.environ.get("VERIF_EVIDENCE_DIR") or os.path.join(VERIF, "evidence")    # (seed trials write elsewhere)
    os.makedirs(evdir, exist_ok=True)
    path = os.path.join(evdir, pid + ".json")
    json.dump(ev, open(path, "w"), indent=1, sort_keys=True)
    return path


def save_replay(pid, name, payload):
    """Store a replay artefact (kept, not a temp file)."""
    d = os.path.join(VERIF, "replays")
    os.makedirs(d, exist_ok=True)
    path = os.path.join(d, "%s-%s.json" % (pid, name))
    json.dump(payload, open(path, "w"), indent=1)
    return path
