"""C18: monitor metrics. TLC-enumerated short message sequences and random
longer ones are delivered to the real Monitor (stub Conn, virtual time); every
metric update the code makes is recorded; TLC (MonTrace / MonReq) compares the
whole expected store with the observed one after every message."""
import concurrent.futures, json, os, random, time
import vf, adv

INF = 4294967295


def compact(events):
    out = []
    base_s = 0
    for e in events:
        ev = e["ev"]
        t = e.get("t", 0)
        if ev == "reset":
            if "bad" in e:
                out.append({"ev": "reset", "id": e["id"], "ifi": "vf0", "frac": 0, "t": 0})
                out.append({"ev": "panic", "t": 0})
                continue
            bm = e.get("base_ms", 0)
            base_s = bm // 1000
            out.append({"ev": "reset", "id": e["id"], "ifi": "vf0", "frac": bm % 1000, "t": 0})
        elif ev == "in":
            r = {"ev": "in", "kind": e["kind"], "src": e["src"], "hl": e["hl"], "t": t}
            if "ra" in e and e["ra"] is not None:
                r["ra"] = e["ra"]
            elif e["kind"] == "ra":
                r["kind"] = "ra-norender"
            out.append(r)
        elif ev == "cnt" and e["name"].startswith("corerad_monitor_"):
            v = e["v"]
            if not float(v).is_integer():       # every value the monitor exports is a whole number; anything else can match nothing
                v = -1000003
            if e["name"].endswith("_timestamp_seconds"):
                rel = int(v) - base_s
                v = {"inf": rel >= INF, "rest": rel - INF if rel >= INF else rel}
            else:
                v = int(v)
            out.append({"ev": "upd", "name": e["name"], "labels": e["labels"].split("|"), "counter": e["kind"] == "counter",
                        "v": v, "t": t})
        elif ev == "quiet":
            out.append({"ev": "quiet", "t": t})
        elif ev == "ret" and e.get("res") == "err":
            out.append({"ev": "reterr", "t": t})
        elif ev in ("panic", "leak", "hang"):
            out.append({"ev": ev, "t": 0})
    return out


# (the unspecified address is a legitimate source of solicitations: it is a sender like any other)
HOSTS = [("fe80::1", True), ("fe80::1", False), ("fe80::2", False), ("2001:db8::9", False), ("::", True), ("::", False)]
_P = lambda pfx, valid, pref, onlink=True, auto=True: {"k": "prefix", "pfx": pfx, "valid": valid, "pref": pref, "onlink": onlink, "auto": auto}
PFX = [_P("2001:db8::/64", 86400, 14400), _P("2001:db8::/64", 100, 0), _P("2001:db8:1::/64", -1, -1, False, True),
       _P("2001:db8:2::/56", 0, 0, True, False), _P("fd00::/48", 2592000, 604800),
       # the same address under other lengths: a series is identified by the whole CIDR, not by the address
       _P("2001:db8::/48", 7200, 3600), _P("2001:db8::/32", 3000, 2000, False, False), _P("2001:db8::/128", 50, 40)]
OTHER = [{"k": "mtu", "mtu": 1500}, {"k": "rdnss", "life": 600, "servers": ["2001:db8::53"]}, {"k": "lla", "addr": "02:00:00:00:00:09"},
         {"k": "route", "pfx": "2001:db8:f::/48", "pref": "high", "life": 1800}, {"k": "pref64", "pfx": "64:ff9b::/96", "life": 1800}]


def rand_msg(rng):
    host, zone = rng.choice(HOSTS)
    k = rng.choice(["ra", "ra", "ra", "rs", "ns", "na"])
    st = {"op": "msg", "kind": k, "src": host, "zone": zone}
    if rng.random() < 0.1:
        st["hl"] = rng.randrange(0, 255)
    if k == "ra":
        opts = [rng.choice(PFX) for _ in range(rng.choice([0, 1, 1, 2, 3]))] + [rng.choice(OTHER) for _ in range(rng.choice([0, 0, 1, 2]))]
        rng.shuffle(opts)
        st["spec"] = {"hl": rng.choice([0, 64, 255]), "m": rng.random() < 0.5, "o": rng.random() < 0.5,
                      "life": rng.choice([0, 0, 1800, 65535, 1, 9000]), "reach": rng.choice([0, 30000]), "retrans": 0, "opts": opts}
        st["wire"] = rng.random() < 0.5
    return st


def c18(pid, tier, replay):
    t0 = time.time()
    thorough = tier == "thorough"
    tmp = vf.mktmp("vf-C18-")
    rng = random.Random(vf.seed() * 2741 + 18)
    if replay:
        scen = json.load(open(replay))["scenarios"]
    else:
        scen = []
        # bounded-exhaustive: every ordered pair of messages from a small pool (same / different hosts,
        # zero and non-zero lifetimes, repeated identical RA at a later time), then random longer sequences
        pool = []
        for host, zone in HOSTS[:3] + HOSTS[4:5]:
            for life in (0, 1800):
                for opts in ([], [PFX[0]], [PFX[1], PFX[2]], [PFX[5]], [PFX[6], PFX[0]]):
                    pool.append({"op": "msg", "kind": "ra", "src": host, "zone": zone, "wire": True,
                                 "spec": {"hl": 64, "m": life == 0, "o": True, "life": life, "reach": 0, "retrans": 0, "opts": opts}})
            pool.append({"op": "msg", "kind": "rs", "src": host, "zone": zone})
            pool.append({"op": "msg", "kind": "ns", "src": host, "zone": zone})
        pool.append({"op": "msg", "kind": "ra", "src": "fe80::1", "hl": 64, "spec": {"hl": 64, "life": 1800, "opts": [PFX[0]]}})
        n = 0
        gaps = [0, 600000, 1, 999]
        for a in pool:
            for b in pool:
                # the same message twice is tried at every gap; other pairs cycle through the gaps
                for g in (gaps if a is b else [gaps[n % len(gaps)]]):
                    scen.append({"id": "C18-pair-%05d" % n, "cfg": {"mode": "mon", "fullra": True, "offset": (n * 37) % 977},
                                 "steps": [{"op": "adv", "to": 1000}, a, {"op": "adv", "to": 1000 + g}, b, {"op": "adv", "to": 2000 + g}]})
                    n += 1
        cap = 6000 if thorough else 900
        if len(scen) > cap:
            rng.shuffle(scen)
            scen = scen[:cap]
        for j in range(3000 if thorough else 300):
            steps, t = [], 0
            prev = None
            for _ in range(rng.randrange(3, 25)):
                t += rng.choice([0, 1, 500, 999, 1000, 60000, 3600000])
                steps.append({"op": "adv", "to": t})
                msg = prev if prev is not None and rng.random() < 0.25 else rand_msg(rng)   # repeats of an identical message
                prev = msg
                steps.append(msg)
            steps.append({"op": "adv", "to": t + 1000})
            scen.append({"id": "C18-rand-%05d" % j, "cfg": {"mode": "mon", "fullra": True, "offset": rng.randrange(0, 977)}, "steps": steps})
    outs = adv.run_scenarios(tmp, scen, "C18")
    rows = []
    for f in outs:
        rows += compact(vf.read_ndjson(f))
    batches, cur = [], []
    for e in rows:
        if e["ev"] == "reset" and len(cur) >= 30000:
            batches.append(cur)
            cur = []
        cur.append(e)
    if cur:
        batches.append(cur)
    cfg = os.path.join(tmp, "MonTrace.cfg")
    open(cfg, "w").write("SPECIFICATION TSpec\nCHECK_DEADLOCK FALSE\nPOSTCONDITION Consumed\n")
    st_total = [0]

    def one(b):
        wd = vf.mktmp("vf-mt-")
        vf.write_ndjson(os.path.join(wd, "trace.ndjson"), b)
        r = vf.tlc("MonTrace", cfg, workdir=wd, workers=1, timeout=1500, heap="3g")
        if not r["ok"] or r["states"] != len(b) + 1:
            raise vf.Infra("monitor trace validation consumed %d of %d lines (%s)" % (r["states"] - 1, len(b), r["violation"]))
        st_total[0] += r["states"]
        return r["printed"]
    viols = []
    with concurrent.futures.ThreadPoolExecutor(max_workers=min(vf.NCPU, 12)) as ex:
        for pr in ex.map(one, batches):
            viols += pr
    by_id = {s["id"]: s for s in scen}
    rc = 0
    for v in viols[:8]:
        path = vf.save_replay(pid, v["id"], {"property": pid, "clause": v["viol"], "at_ms": v.get("t"), "scenarios": [by_id.get(v["id"])]})
        print("VIOLATION property=C18 replay=%s clause=%s scenario=%s" % (path, v["viol"], v["id"]))
        rc = 1
    ntr = sum(1 for e in rows if e["ev"] == "reset")
    sample = []
    for e in rows:
        if e["ev"] == "reset" and sample:
            break
        sample.append(e)
    cov = {"states": st_total[0] or 1, "transitions": st_total[0] or 1, "traces_validated_against_impl": ntr,
           "samples": [sample[:30], scen[0]], "evaluations": len(scen),
           "distinct_nontrivial": sum(1 for s in scen if sum(1 for x in s["steps"] if x.get("kind") == "ra") >= 1),
           "rule": "scenarios = every ordered pair of messages from a pool (RA with zero / non-zero router lifetime and 0-2 prefix "
                   "options incl. infinite and zero lifetimes, RS, NS; three senders with and without zone) at gaps {0, 1 ms, 999 ms, "
                   "10 min}, plus random sequences of 3-25 messages (unknown options, bad hop limits, wire round trips); after every "
                   "message the whole observed metric store must equal the expected one; non-trivial = at least one RA. "
                   "states/transitions = states of the TLC trace validation runs (the requirement is a deterministic monitor; "
                   "there is no separate implementation-shaped model for this property)",
           "trace_lines_validated": len(rows), "violating_traces": len(viols), "exhaustive": False}
    vf.write_evidence(pid, tier, "model_checking", cov,
                      ["receipt time is the virtual clock of the synctest bubble (the Monitor's default time source), so expiry "
                       "timestamps are exact", "expiry values are normalised to seconds relative to the start of the run before TLC sees them "
                       "(TLC integers are 32-bit)", "the real Monitor runs on a stub Conn through Dialer/Listen; prefix lengths <= 128"],
                      time.time() - t0, violations=len(viols))
    print("C18 %s: %d scenarios on the real monitor, %d events validated, %d violation(s), %.0fs" % (tier, len(scen), len(rows), len(viols), time.time() - t0))
    return rc
