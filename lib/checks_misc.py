"""C19 (link-state watcher) and C20 (server supervision)."""
import concurrent.futures, json, os, random, re, time
import vf

NS_PKGS = {"internal/netstate": ["common/vf_util.go", "netstate/vf_watcher.go"]}


def _tlc_cfg(path, spec, consts, invs=None, post=None):
    with open(path, "w") as f:
        f.write("SPECIFICATION %s\n" % spec)
        if consts:
            f.write("CONSTANTS\n")
            for k, v in consts.items():
                f.write("  %s = %s\n" % (k, v))
        if invs:
            f.write("INVARIANTS %s\n" % invs)
        f.write("CHECK_DEADLOCK FALSE\n")
        if post:
            f.write("POSTCONDITION %s\n" % post)


def validate(tmp, rows, module, consts, tag, lines_per_batch=40000):
    cfg = os.path.join(tmp, "%s_%s.cfg" % (module, tag))
    _tlc_cfg(cfg, "TSpec", consts, None, "Consumed")
    batches, cur = [], []
    for e in rows:
        if e.get("ev") == "reset" and len(cur) >= lines_per_batch:
            batches.append(cur)
            cur = []
        cur.append(e)
    if cur:
        batches.append(cur)
    total = [0]

    def one(b):
        wd = vf.mktmp("vf-tv-")
        vf.write_ndjson(os.path.join(wd, "trace.ndjson"), b)
        r = vf.tlc(module, cfg, workdir=wd, workers=1, timeout=1500, heap="3g")
        if not r["ok"] or r["states"] != len(b) + 1:
            raise vf.Infra("%s consumed %d of %d lines (%s)" % (module, r["states"] - 1, len(b), r["violation"]))
        total[0] += r["states"]
        return r["printed"]
    viols = []
    with concurrent.futures.ThreadPoolExecutor(max_workers=min(vf.NCPU, 12)) as ex:
        for pr in ex.map(one, batches):
            viols += pr
    return viols, total[0]


def c19(pid, tier, replay):
    t0 = time.time()
    thorough = tier == "thorough"
    tmp = vf.mktmp("vf-C19-")
    rng = random.Random(vf.seed() * 911 + 19)
    mcs = []
    if replay:
        scen = json.load(open(replay))["scenarios"]
    else:
        scen = []
        runs = [("seq", dict(Cap=2, Ifaces='{"a", "b"}', Masks="{1, 3}", AllMasks="FALSE", Changes="{1, 2}", Depth=5 if thorough else 4, MaxSubs=2,
                             MaxBatchLen=2, EmitMod=23 if thorough else 1), True),
                ("masks", dict(Cap=8, Ifaces='{"a", "b"}', Masks="{}", AllMasks="TRUE", Changes="{1, 2, 4, 8, 16, 32, 64}", Depth=2, MaxSubs=1,
                               MaxBatchLen=1, EmitMod=1), False)]
        for name, c, emit in runs:
            cfg = os.path.join(tmp, "WMC_%s.cfg" % name)
            _tlc_cfg(cfg, "MSpec", c, "Bounded OnlyAsked ClosedIffEnded NoFlag" + (" Emit" if emit else ""))
            r = vf.tlc("WatchMC", cfg, workdir=vf.mktmp("vf-wmc-"), timeout=3000, heap="10g")
            mcs.append({"config": "WatchMC " + name, "constants": c, "states": r["states"], "transitions": r["generated"],
                        "ok": r["ok"], "violation": r["violation"], "wall_s": round(r["wall_s"], 1)})
            if not r["ok"]:
                print("MODEL-COUNTEREXAMPLE property=C19 config=%s %s (not a verdict)" % (name, r["violation"]))
            if emit:
                hs = [p["h"] for p in r["printed"]]
                rng.shuffle(hs)
                for i, h in enumerate(hs[:40000 if thorough else 4000]):
                    scen.append({"id": "C19-seq-%05d" % i, "h": h, "enderr": ["", "", "", "other", "notexist"][i % 5]})
        # (i) every mask x every change x same / other interface
        n = 0
        for mask in range(1, 128):
            for k in range(7):
                for ifi in ("a", "b"):
                    scen.append({"id": "C19-mask-%05d" % n,
                                 "h": [{"op": "sub", "iface": "a", "mask": mask}, {"op": "sub", "iface": "b", "mask": 127 - mask or 127},
                                       {"op": "notify", "batch": [{"iface": ifi, "changes": [1 << k]}]}, {"op": "drain", "i": 1},
                                       {"op": "end"}]})
                    n += 1
        # (iii) undrained events around the 8-slot buffer
        for k in range(0, 14):
            for burst in (False, True):
                h = [{"op": "sub", "iface": "a", "mask": 127}, {"op": "sub", "iface": "a", "mask": 2}]
                chs = [[1, 2, 4, 2, 64][j % 5] for j in range(k)]
                if burst:
                    h.append({"op": "notify", "batch": [{"iface": "a", "changes": chs}]} if chs else {"op": "drain", "i": 1})
                else:
                    h += [{"op": "notify", "batch": [{"iface": "a", "changes": [c]}]} for c in chs]
                h += [{"op": "drain", "i": 1}] + ([{"op": "cancelctx"}, {"op": "sub", "iface": "a", "mask": 4}] if k % 2 else []) + \
                     [{"op": "notify", "batch": [{"iface": "a", "changes": [2, 2]}]}, {"op": "drain", "i": 2}, {"op": "end"},
                      {"op": "sub", "iface": "a", "mask": 127}]
                scen.append({"id": "C19-overflow-%02d-%d" % (k, burst), "h": h})
        # random long sequences
        for j in range(3000 if thorough else 300):
            h = []
            nsub = 0
            for _ in range(rng.randrange(5, 60)):
                r = rng.random()
                if r < 0.15 or nsub == 0:
                    h.append({"op": "sub", "iface": rng.choice("ab"), "mask": rng.randrange(1, 128)})
                    nsub += 1
                elif r < 0.7:
                    b = [{"iface": i, "changes": [1 << rng.randrange(7) for _ in range(rng.randrange(1, 5))]}
                         for i in rng.sample(["a", "b", "c"], rng.randrange(1, 3))]
                    h.append({"op": "notify", "batch": b})
                elif r < 0.94:
                    h.append({"op": "drain", "i": rng.randrange(1, nsub + 1)})
                elif r < 0.97:
                    h.append({"op": "cancelctx"})       # the context is cancelled; watching goes on until the loop returns
                else:
                    h.append({"op": "end"})
            scen.append({"id": "C19-rand-%05d" % j, "h": h, "enderr": ["", "", "other", "notexist"][j % 4]})
        # (iv) concurrent Subscribe || notify || end
        for j in range(300 if thorough else 30):
            scen.append({"id": "C19-conc-%04d" % j, "conc": True, "seed": vf.seed() * 1000 + j, "subs": 6, "batches": 80,
                         "waitall": j % 3 != 0, "h": []})
    nshards = min(vf.NCPU, max(1, len(scen) // 500))
    shards = [scen[i::nshards] for i in range(nshards)]

    def one(i):
        inp = os.path.join(tmp, "C19-in-%d.ndjson" % i)
        outp = os.path.join(tmp, "C19-out-%d.ndjson" % i)
        vf.write_ndjson(inp, shards[i])
        vf.go_test(NS_PKGS, "internal/netstate", "^TestVF_Watcher$", env={"VF_IN": inp, "VF_OUT": outp}, tmp=vf.mktmp("vf-go-"))
        return outp
    outs = [one(0)]
    if nshards > 1:
        with concurrent.futures.ThreadPoolExecutor(max_workers=nshards) as ex:
            outs += list(ex.map(one, range(1, nshards)))
    # "subscribing concurrently with notification is safe": the concurrent scenarios once more under the race detector
    races = []
    conc = [s for s in scen if s.get("conc")]
    if conc and not replay:
        inp = os.path.join(tmp, "C19-race-in.ndjson")
        vf.write_ndjson(inp, conc[:40])
        try:
            vf.go_test(NS_PKGS, "internal/netstate", "^TestVF_Watcher$", env={"VF_IN": inp, "VF_OUT": os.path.join(tmp, "C19-race-out.ndjson")},
                       tmp=vf.mktmp("vf-go-"), race=True)
        except vf.DataRace as dr:
            # only races that involve the code under test count (frames in internal/netstate outside the harness files)
            blocks = [b for b in dr.out.split("WARNING: DATA RACE")[1:] if re.search(r"internal/netstate/watcher(_linux)?\.go", b)]
            if blocks:
                races = blocks[:3]
            else:
                raise vf.Infra("data race inside the harness itself: %s" % dr.out[-1500:])
    rows = []
    for f in outs:
        rows += vf.read_ndjson(f)
    viols, vstates = validate(tmp, rows, "WatchTrace", dict(Cap=8), "C19")
    for b in races:
        viols.append({"viol": "c19-data-race-between-subscribe-notify-and-end", "id": "C19-race", "detail": b[:1500]})
    by_id = {s["id"]: s for s in scen}
    rc = 0
    for v in viols[:8]:
        path = vf.save_replay(pid, v["id"], {"property": pid, "clause": v["viol"], "scenarios": [by_id.get(v["id"])] if v["id"] in by_id else conc[:40],
                                             "detail": v.get("detail")})
        print("VIOLATION property=C19 replay=%s clause=%s scenario=%s" % (path, v["viol"], v["id"]))
        rc = 1
    sample = []
    for e in rows:
        if e["ev"] == "reset" and sample:
            break
        sample.append(e)
    cov = {"states": sum(m["states"] for m in mcs) or 1, "transitions": sum(m["transitions"] for m in mcs) or 1,
           "traces_validated_against_impl": len(scen), "samples": [sample[:30], scen[0]], "evaluations": len(scen),
           "distinct_nontrivial": sum(1 for s in scen if sum(1 for o in s["h"] if o["op"] == "notify") >= 1) + sum(1 for s in scen if s.get("conc")),
           "rule": "scripts = (seq) every call sequence of WatchMC to depth 4 (5) over 2 interfaces x masks {1,3} x changes {1,2} with a "
                   "2-slot buffer in the model, sampled; (mask) all 127 masks x 7 changes x same/other interface; (overflow) 0..13 "
                   "undrained matching events one by one and in one batch around the 8-slot buffer, late subscription; random "
                   "sequences of 5-60 calls (odd-numbered notifications go through process() from synthetic rtnetlink link "
                   "messages); concurrent Subscribe || notify || end runs. After every call the buffered count of every subscriber "
                   "is compared with the model; each drain compares the received sequence and closed-ness. non-trivial = at "
                   "least one notification",
           "model_checking_runs": mcs, "trace_lines_validated": len(rows), "violating_traces": len(viols), "exhaustive": False}
    vf.write_evidence(pid, tier, "model_checking", cov,
                      ["the OS watch hook is replaced (w.watch), as in the repository's own tests; osWatch/netlink itself is not exercised",
                       "the concurrent Subscribe / notify / end scenarios run a second time under the Go race detector; a report whose stacks touch watcher.go is a violation; the oracle for "
                       "concurrent runs is order/selection/closure, not a full linearizability search",
                       "model buffer capacity is 2 in the sequence exploration and 8 (the real value) in trace validation"],
                      time.time() - t0, violations=len(viols))
    print("C19 %s: model states=%d, %d scripts on the real Watcher, %d events validated, %d violation(s), %.0fs"
          % (tier, cov["states"], len(scen), len(rows), len(viols), time.time() - t0))
    return rc


# ---------------------------------------------------------------- C20 ----
SRV_PKGS = {"internal/corerad": ["common/vf_util.go", "common/vf_ra.go", "corerad/vf_world.go", "corerad/vf_adv.go",
                                 "corerad/vf_mdelay.go", "corerad/vf_verify.go", "corerad/vf_server.go"],
            "internal/system": ["system/vf_export.go"]}


def c20(pid, tier, replay):
    t0 = time.time()
    thorough = tier == "thorough"
    tmp = vf.mktmp("vf-C20-")
    rng = random.Random(vf.seed() * 613 + 20)
    mcs = []
    if replay:
        scen = json.load(open(replay))["scenarios"]
    else:
        scen = []
        for n in ((2, 3) if thorough else (2,)):
            cfg = os.path.join(tmp, "Srv_%d.cfg" % n)
            consts = dict(N=n, Behaviours='{"run", "fail", "early", "slow", "neverready"}', Sigs='{"term", "hup", "none"}')
            _tlc_cfg(cfg, "Spec", consts, "Req NoReturnBeforeTasks Emit")
            r = vf.tlc("Server", cfg, workdir=vf.mktmp("vf-smc-"), timeout=3000, heap="10g")
            mcs.append({"config": "Server N=%d" % n, "constants": consts, "states": r["states"], "transitions": r["generated"],
                        "ok": r["ok"], "violation": r["violation"], "wall_s": round(r["wall_s"], 1)})
            if not r["ok"]:
                print("MODEL-COUNTEREXAMPLE property=C20 config=N=%d %s (not a verdict)" % (n, r["violation"]))
            seen = {}
            for p in r["printed"]:
                k = json.dumps([p["beh"], p["sig"], p["h"]], sort_keys=True)
                seen[k] = p
            beh_list = sorted(seen.values(), key=lambda p: json.dumps([p["beh"], p["sig"], p["h"]], sort_keys=True))
            # keep maximal histories per (beh, sig): drop strict prefixes
            keep = []
            for p in beh_list:
                keep.append(p)
            rng.shuffle(keep)
            for i, p in enumerate(keep[:6000 if thorough else 700]):
                scen.append({"kind": "serve", "id": "C20-serve%d-%05d" % (n, i), "beh": p["beh"], "h": p["h"], "sig": p["sig"],
                             "failwrap": i % 3 == 0})
        # every signal kind, repeated (statistical exposure of the set-before-cancel ordering)
        for j in range(400 if thorough else 60):
            sig = ["term", "hup", "int"][j % 3]
            scen.append({"kind": "serve", "id": "C20-sig-%04d" % j, "beh": ["run", "run", "slow"],
                         "h": [{"op": "ready", "i": 1}, {"op": "signal", "sig": sig}, {"op": "release", "i": 3}]})
        # a task that takes long to stop (virtual time): Serve returns only after it, with the right result
        n = 0
        for ms in (100, 4000, 5001, 60000, 3600000):
            for sig in ("term", "hup"):
                scen.append({"kind": "serve", "bubble": True, "id": "C20-slowstop-%03d" % n, "beh": ["slow", "run"],
                             "h": [{"op": "ready", "i": 1}, {"op": "ready", "i": 2}, {"op": "signal", "sig": sig},
                                   {"op": "sleep", "ms": ms}, {"op": "release", "i": 1}]})
                n += 1
            for wrap in (False, True):
                scen.append({"kind": "serve", "bubble": True, "id": "C20-slowstop-%03d" % n, "beh": ["slow", "fail", "run"], "failwrap": wrap,
                             "h": [{"op": "ready", "i": 1}, {"op": "fail", "i": 2}, {"op": "sleep", "ms": ms}, {"op": "release", "i": 1}]})
                n += 1
        # BuildTasks over all mixes of <= 3 interfaces x debug
        kinds = [(False, False), (True, False), (False, True)]
        n = 0
        import itertools
        for k in range(0, 4):
            for mix in itertools.product(kinds, repeat=k):
                for debug in (False, True):
                    scen.append({"kind": "build", "id": "C20-build-%04d" % n, "debug": debug,
                                 "ifaces": [{"name": "if%d" % i, "adv": a, "mon": m} for i, (a, m) in enumerate(mix)]})
                    n += 1
        for j, res in enumerate(("nil", "notexist", "other")):
            scen.append({"kind": "wtask", "id": "C20-wtask-%d" % j, "res": res})
        # serve() retry loop
        outs = [[], ["closed"], ["other"], ["op", "closed"], ["op", "op", "other"], ["op"] * 39 + ["closed"], ["op"] * 40 + ["closed"],
                ["op"] * 45]
        n = 0
        for o in outs:
            for cancel in (-1, 0, 1, 2999, 3000, 3001, 7500, 116999, 117001, 130000):
                scen.append({"kind": "retry", "id": "C20-retry-%04d" % n, "outcomes": o, "cancel_ms": cancel})
                n += 1
        # the debug HTTP task itself on a loopback address (real time): free address, address occupied across the first
        # attempt(s), cancellation while waiting for the next attempt, immediate cancellation
        # (model first: spec/HttpTask.tla, the task against every (busy, cancel) pair and every resolution of the races,
        # judged by the same ServReq!OnHttp as the recorded runs; the second configuration exhausts the 40 attempts)
        for name, busys, cancels in (("http", "{0, 200, 1500, 2400, 3000, 3500, 7000}", "{0, 100, 600, 1000, 2500, 3000, 4500, 6000, 6500, 9500, 13000}"),
                                     ("http-exhaust", "{116000, 117000, 120000, 200000}", "{5000, 116500, 117000, 118000, 130000}")):
            cfg = os.path.join(tmp, "Http_%s.cfg" % name)
            consts = dict(Busys=busys, Cancels=cancels, Delay=3000, Attempts=40)
            _tlc_cfg(cfg, "HSpec", consts, "Req NoErrUnlessExhausted ReadyOnlyWhenFree")
            with open(cfg, "a") as f:
                f.write("PROPERTIES Ends\n")
            r = vf.tlc("HttpTask", cfg, workdir=vf.mktmp("vf-hmc-"), timeout=600, heap="4g")
            mcs.append({"config": "HttpTask " + name, "constants": consts, "states": r["states"], "transitions": r["generated"],
                        "ok": r["ok"], "violation": r["violation"], "wall_s": round(r["wall_s"], 1)})
            if not r["ok"]:
                print("MODEL-COUNTEREXAMPLE property=C20 config=HttpTask-%s %s (not a verdict)" % (name, r["violation"]))
        https = [(0, 600), (0, 0), (1500, 1000), (1500, 6500)]
        if tier == "thorough":
            https += [(0, 2500), (2400, 6000), (3500, 9500), (3500, 4500), (200, 100)]
        for j, (busy, cancel) in enumerate(https):
            scen.append({"kind": "http", "id": "C20-http-%02d" % j, "busy_ms": busy, "cancel_ms": cancel})
        # a request that is still being handled when the task is cancelled (the stop does not wait for it)
        scen.append({"kind": "http", "id": "C20-http-inflight", "busy_ms": 0, "cancel_ms": 700, "inflight": True})
    nshards = min(vf.NCPU, max(1, len(scen) // 60))
    shards = [scen[i::nshards] for i in range(nshards)]

    def one(i):
        inp = os.path.join(tmp, "C20-in-%d.ndjson" % i)
        outp = os.path.join(tmp, "C20-out-%d.ndjson" % i)
        vf.write_ndjson(inp, shards[i])
        # (a panic or fatal error of the server code kills the test process: vf.ProductCrash, reported by ./check as a
        # violation; crashes that originate in the harness's own files are vf.Infra)
        vf.go_test(SRV_PKGS, "internal/corerad", "^TestVF_Server$", env={"VF_IN": inp, "VF_OUT": outp}, tmp=vf.mktmp("vf-go-"))
        return outp
    outs_f = [one(0)]
    if nshards > 1:
        with concurrent.futures.ThreadPoolExecutor(max_workers=nshards) as ex:
            outs_f += list(ex.map(one, range(1, nshards)))
    rows = []
    for f in outs_f:
        for e in vf.read_ndjson(f):
            if e["ev"] == "build":
                e["kinds"] = [t.split(":")[0] for t in e["tasks"]]
                e["names"] = [t.split(":", 1)[1] if ":" in t else "" for t in e["tasks"]]
            rows.append(e)
    viols, vstates = validate(tmp, rows, "ServTrace", None, "C20")
    by_id = {s["id"]: s for s in scen}
    rc = 0
    for v in viols[:8]:
        path = vf.save_replay(pid, v["id"], {"property": pid, "clause": v["viol"], "scenarios": [by_id.get(v["id"])]})
        print("VIOLATION property=C20 replay=%s clause=%s scenario=%s" % (path, v["viol"], v["id"]))
        rc = 1
    sample = []
    for e in rows:
        if e["ev"] == "reset" and sample:
            break
        sample.append(e)
    cov = {"states": sum(m["states"] for m in mcs) or 1, "transitions": sum(m["transitions"] for m in mcs) or 1,
           "traces_validated_against_impl": len(scen), "samples": [sample[:30], scen[0]], "evaluations": len(scen),
           "distinct_nontrivial": sum(1 for s in scen if s["kind"] == "serve" and len(s["h"]) >= 1) + sum(1 for s in scen if s["kind"] != "serve"),
           "rule": "serve: quiescent histories of Server.tla (2 (3) stub tasks x behaviours {runs until cancelled, fails, returns early, "
                   "slow to stop, never ready} x signal {terminate, reload, none} x every interleaving in the model), sampled and "
                   "replayed on the real Serve with the real signal task, terminator and a unix-datagram notify socket, plus "
                   "repeated signal runs; build: every mix of <= 3 interfaces {advertise, monitor, neither} x debug on/off; retry: "
                   "scripted listener outcomes x cancellation instants for the HTTP retry loop under virtual time. non-trivial = "
                   "serve scripts with at least one operation, and all build / retry vectors",
           "model_checking_runs": mcs, "trace_lines_validated": len(rows), "violating_traces": len(viols), "exhaustive": False}
    vf.write_evidence(pid, tier, "model_checking", cov,
                      ["tasks are stubs; the real Advertiser/Monitor as tasks are covered by C06-C10",
                       "Serve runs in real time: quiescence is detected by an event counter that stays unchanged for a few milliseconds",
                       "the set-terminator-before-cancel ordering inside the signal task cannot be forced, only exposed statistically by "
                       "stub tasks that read terminate() the moment they see cancellation",
                       "the debug HTTP task is run for real on a loopback address (http scenarios, real time, timing clauses with 2.5 s slack and believed only when seen twice); its 40-attempt exhaustion (117 s) is covered by the model and the virtual-time retry vectors only"],
                      time.time() - t0, violations=len(viols))
    print("C20 %s: model states=%d, %d scripts/vectors on the real server code, %d events validated, %d violation(s), %.0fs"
          % (tier, cov["states"], len(scen), len(rows), len(viols), time.time() - t0))
    return rc
