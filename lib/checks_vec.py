"""Function-like families checked with vectors: C13, C14, C15 (Wildcards),
C16 (Deprecation). TLC checks Impl = Req and the lemmas over the bounded
domain and enumerates the vectors; the real code is run on each vector; TLC
(VecTrace) decides out = Req(in) for every recorded observation."""
import concurrent.futures, ipaddress, json, os, random, time
import vf

PLUGIN_PKGS = {"internal/plugin": ["common/vf_util.go", "plugin/vf_plugin.go"],
               "internal/system": ["system/vf_export.go", "system/vf_addr_export.go"]}


def _cfg(path, spec, consts, invs, post=None):
    with open(path, "w") as f:
        f.write("SPECIFICATION %s\n" % spec)
        if consts:
            f.write("CONSTANTS\n")
            for k, v in consts.items():
                f.write("  %s = %s\n" % (k, v))
        if invs:
            f.write("INVARIANTS %s\n" % invs)
        f.write("CHECK_DEADLOCK FALSE\n")
        if post:
            f.write("POSTCONDITION %s\n" % post)


def hx(a):
    b = ipaddress.ip_address(a)
    p = b.packed
    if b.version == 4:
        return [0, 0, 0, 0, 0, 0, p[0] * 256 + p[1], p[2] * 256 + p[3]]
    return [p[2 * i] * 256 + p[2 * i + 1] for i in range(8)]


APOOL = json.load(open(os.path.join(vf.SPEC, "addrs.json")))
RPOOL = json.load(open(os.path.join(vf.SPEC, "routes.json")))


def rand_addr(rng):
    cls = rng.choice(["ula", "gua", "gua", "lla", "v4", "other"])
    host = rng.choice([1, 2, 0xaaff << 48 | 0xfe00 << 32 | rng.randrange(1, 9), rng.getrandbits(64) | 1])
    if cls == "v4":
        a = "192.0.2.%d" % rng.randrange(1, 250)
        return dict(addr=a, bits=24, v4=True, h=hx(a), dep=False, mt=False, sp=False, tmp=False, tent=False, forever=False)
    top = {"ula": 0xfd00 << 112 | rng.randrange(0, 3) << 64, "gua": 0x20010db8 << 96 | rng.randrange(0, 4) << 64,
           "lla": 0xfe80 << 112, "other": 0}[cls]
    if cls == "other":
        host = rng.choice([1, 0])
    a = str(ipaddress.IPv6Address(top | (host & ((1 << 64) - 1))))
    fl = lambda p: rng.random() < p
    return dict(addr=a, bits=rng.choice([64, 64, 64, 64, 48, 128, 56]), v4=False, h=hx(a), dep=fl(.15), mt=fl(.15), sp=fl(.15),
                tmp=fl(.12), tent=fl(.12), forever=fl(.2))


def rand_route(rng):
    if rng.random() < 0.1:
        n = ipaddress.ip_network("10.%d.0.0/16" % rng.randrange(0, 4))
        return dict(pfx=str(n), v4=True, h=hx(str(n.network_address)), bits=16)
    base = rng.choice([0x20010db8 << 96, 0xfd00 << 112, 0x20010db8 << 96 | 1 << 80])
    bits = rng.choice([0, 8, 32, 48, 56, 60, 64, 64, 128, 52])
    sub = rng.randrange(0, 3) << 64 | rng.randrange(0, 3) << 76
    v = (base | sub)
    if bits < 128:
        v = v >> (128 - bits) << (128 - bits) if bits > 0 else 0
    else:
        v |= 1
    n = ipaddress.IPv6Network((v, bits))
    return dict(pfx=str(n), v4=False, h=hx(str(n.network_address)), bits=bits)


def wildcard_vectors(pid, tier, rng, tmp):
    thorough = tier == "thorough"
    maxlen = 4 if thorough else 3
    cfg = os.path.join(tmp, "WMC.cfg")
    _cfg(cfg, "MSpec", dict(MaxLen=maxlen, Emit="TRUE"), "C13_ImplIsReq C14_ImplIsReq C14_Order C15_ImplIsReq EmitVec")
    r = vf.tlc("WildcardsMC", cfg, workdir=vf.mktmp("vf-wmc-"), timeout=3000, heap="10g")
    mc = {"config": "WildcardsMC MaxLen=%d" % maxlen, "states": r["states"], "transitions": r["generated"], "ok": r["ok"],
          "violation": r["violation"], "wall_s": round(r["wall_s"], 1)}
    vecs = []
    kindwant = "route" if pid == "C15" else "addr"
    idxs = sorted({tuple(p["idx"]) for p in r["printed"] if p["kind"] == kindwant})
    cap = 60000 if thorough else 7000
    if len(idxs) > cap:
        rng.shuffle(idxs)
        idxs = idxs[:cap]
    statics = [[], [{"addr": "2001:db8::53", "h": hx("2001:db8::53")}],
               [{"addr": "2001:db8::53", "h": hx("2001:db8::53")}, {"addr": "fd00::53", "h": hx("fd00::53")}]]
    for n, idx in enumerate(idxs):
        if pid == "C13":
            vecs.append({"kind": "c13", "id": "c13-%06d" % n, "in": {"addrs": [APOOL[i - 1] for i in idx], "fail": False,
                                                                     "onlink": n % 2 == 0, "auto": n % 3 != 0}})
        elif pid == "C14":
            vecs.append({"kind": "c14", "id": "c14-%06d" % n, "in": {"addrs": [APOOL[i - 1] for i in idx], "fail": False,
                                                                     "static": statics[n % 3]}})
        else:
            vecs.append({"kind": "c15", "id": "c15-%06d" % n, "in": {"routes": [RPOOL[i - 1] for i in idx], "fail": False}})
    # every second vector reaches the plugin through the real rtnetlink decoding of internal/system
    for n, v in enumerate(vecs):
        if n % 2 == 1:
            v["in"]["via"] = "rtnl"
    # listing failure must fail RA generation
    k = pid.lower()
    # (whatever the class of the error: a vanished interface, an interrupted call, a permission problem, a time-out)
    for fk in ("other", "notexist", "enoent", "patherr", "enodev", "eintr", "perm", "canceled", "deadline", "eof"):
        if pid == "C15":
            vecs.append({"kind": k, "id": k + "-fail-" + fk, "in": {"routes": RPOOL[:2], "fail": True, "failkind": fk}})
        else:
            vecs.append({"kind": k, "id": k + "-fail-" + fk, "in": {"addrs": APOOL[:3], "fail": True, "failkind": fk, "onlink": True, "auto": True, "static": []}})
    # random larger listings outside the TLC domain
    for j in range(6000 if thorough else 600):
        n = rng.randrange(0, 41 if thorough else 16)
        if pid == "C15":
            lst = [rand_route(rng) for _ in range(n)]
            lst += [dict(x) for x in lst[:rng.randrange(0, 3)]]
            rng.shuffle(lst)
            vecs.append({"kind": "c15", "id": "c15-rand-%05d" % j, "in": {"routes": lst, "fail": False}})
        else:
            lst = [rand_addr(rng) for _ in range(n)]
            lst += [dict(x) for x in lst[:rng.randrange(0, 3)]]
            rng.shuffle(lst)
            if pid == "C13":
                vecs.append({"kind": "c13", "id": "c13-rand-%05d" % j, "in": {"addrs": lst, "fail": False, "onlink": True, "auto": j % 2 == 0}})
            else:
                vecs.append({"kind": "c14", "id": "c14-rand-%05d" % j, "in": {"addrs": lst, "fail": False, "static": statics[j % 3]}})
    for n, v in enumerate(vecs):
        if "rand" in v["id"] and n % 2 == 0:
            v["in"]["via"] = "rtnl"
    return [mc], vecs


def deprecation_vectors(pid, tier, rng, tmp):
    thorough = tier == "thorough"
    cfg = os.path.join(tmp, "DMC.cfg")
    _cfg(cfg, "MSpec", dict(Epoch=100, Valids="{3, 5}", RLs="{2, 4}", Lo=96 if thorough else 97, Hi=107 if thorough else 106,
                            MaxReads=4 if thorough else 3), "Lemmas EmitVec")
    r = vf.tlc("DeprecationMC", cfg, workdir=vf.mktmp("vf-dmc-"), timeout=3000, heap="10g")
    mc = {"config": "DeprecationMC", "states": r["states"], "transitions": r["generated"], "ok": r["ok"],
          "violation": r["violation"], "wall_s": round(r["wall_s"], 1)}
    vecs = []
    seen = set()
    for p in r["printed"]:
        k = json.dumps(p, sort_keys=True)
        if k in seen:
            continue
        seen.add(k)
        for unit in ("s", "ns"):
            v = dict(p)
            v["unit"] = unit
            v["tick"] = (len(seen) + (unit == "ns")) % 3       # 0: frozen clock; 1, 2: the clock moves between readings
            vecs.append({"kind": "c16", "id": "c16-%06d-%s" % (len(seen), unit), "in": v})
    cap = 80000 if thorough else 12000
    if len(vecs) > cap:
        rng.shuffle(vecs)
        vecs = vecs[:cap]
    # the clock the plugins install themselves (Prepare), re-installed at some reads: the deadline does not move
    for j in range(400 if thorough else 60):
        valid = rng.choice([1, 2, 5, 60, 3600])
        pref = rng.randrange(1, valid + 1)
        rl = rng.choice([1, 3, 60, 7200])
        reads, t = [], 0
        for _ in range(rng.randrange(2, 8)):
            t += rng.choice([0, 1, 1, 2, valid // 2 + 1, valid])
            reads.append(t)
        vecs.append({"kind": "c16", "id": "c16-prep-%05d" % j,
                     "in": {"epoch": 0, "valid": valid, "pref": pref, "rl": rl, "deprecated": j % 5 != 0, "reads": reads, "unit": "s", "tick": 0,
                            "prepare": True, "reprepare": sorted(rng.sample(range(len(reads)), rng.randrange(0, len(reads))))}})
    for j in range(5000 if thorough else 500):
        valid = rng.randrange(1, 100000)
        pref = rng.randrange(1, valid + 1)
        rl = rng.randrange(1, 100000)
        epoch = rng.randrange(0, 1000)
        reads, t = [], epoch - rng.randrange(0, 50)
        for _ in range(rng.randrange(1, 12)):
            t += rng.choice([0, 1, rng.randrange(0, valid + 5), valid // 2])
            reads.append(t)
        for pt in (epoch + valid - 1, epoch + valid, epoch + pref - 1, epoch + pref, epoch + rl):
            if rng.random() < 0.5:
                reads.append(pt)
        reads.sort()
        vecs.append({"kind": "c16", "id": "c16-rand-%05d" % j,
                     "in": {"epoch": epoch, "valid": valid, "pref": pref, "rl": rl, "deprecated": rng.random() < 0.85,
                            "reads": reads, "unit": rng.choice(["s", "ns"]), "tick": rng.choice([0, 0, 1, 1, 2, 7])}})
        if j % 3 == 0:
            # the prefix stanza is the ::/64 wildcard over an address the kernel may itself flag deprecated
            vecs[-1]["in"].update({"wild": True, "kdep": j % 2 == 0, "deprecated": j % 4 == 1})
    return [mc], vecs


def run_vectors(tmp, vecs, pkgs, pkgdir, testname, tag):
    nshards = min(vf.NCPU, max(1, len(vecs) // 3000))
    shards = [vecs[i::nshards] for i in range(nshards)]

    def one(i):
        inp = os.path.join(tmp, "%s-in-%d.ndjson" % (tag, i))
        outp = os.path.join(tmp, "%s-out-%d.ndjson" % (tag, i))
        vf.write_ndjson(inp, shards[i])
        vf.go_test(pkgs, pkgdir, testname, env={"VF_IN": inp, "VF_OUT": outp}, tmp=vf.mktmp("vf-go-"))
        return outp
    outs = [one(0)]
    if nshards > 1:
        with concurrent.futures.ThreadPoolExecutor(max_workers=nshards) as ex:
            outs += list(ex.map(one, range(1, nshards)))
    return outs


def validate_vectors(tmp, outs, module="VecTrace", lines_per_batch=4000):
    rows = []
    for f in outs:
        rows += vf.read_ndjson(f)
    bad_shape = [r for r in rows if not isinstance(r.get("out"), dict) or r["out"].get("panic")]
    good = [r for r in rows if r not in bad_shape] if bad_shape else rows
    cfg = os.path.join(tmp, "%s.cfg" % module)
    _cfg(cfg, "TSpec", None, None, post="Consumed")
    batches = [good[i:i + lines_per_batch] for i in range(0, len(good), lines_per_batch)]

    def one(b):
        wd = vf.mktmp("vf-vt-")
        vf.write_ndjson(os.path.join(wd, "trace.ndjson"), b)
        r = vf.tlc(module, cfg, workdir=wd, workers=1, timeout=1500, heap="3g")
        if not r["ok"] or r["states"] != len(b) + 1:
            raise vf.Infra("vector validation consumed %d of %d lines (%s)" % (r["states"] - 1, len(b), r["violation"]))
        return r["printed"]
    viols = [{"viol": "panic", "id": r.get("id")} for r in bad_shape]
    with concurrent.futures.ThreadPoolExecutor(max_workers=min(vf.NCPU, 14)) as ex:
        for pr in ex.map(one, batches):
            viols += pr
    return viols, rows


def vec_check(pid, tier, replay, gen, nontrivial, rule, assumptions, pkgs=PLUGIN_PKGS, pkgdir="internal/plugin",
              testname="^TestVF_Plugin$", module="VecTrace"):
    t0 = time.time()
    tmp = vf.mktmp("vf-%s-" % pid)
    rng = random.Random(vf.seed() * 15485863 + int(pid[1:]))
    mc = []
    if replay:
        vecs = json.load(open(replay))["vectors"]
    else:
        mc, vecs = gen(pid, tier, rng, tmp)
        for m in mc:
            if not m["ok"]:
                print("MODEL-COUNTEREXAMPLE property=%s config=%s %s (not a verdict)" % (pid, m["config"], m["violation"]))
    outs = run_vectors(tmp, vecs, pkgs, pkgdir, testname, pid)
    viols, rows = validate_vectors(tmp, outs, module)
    by_id = {v["id"]: v for v in vecs}
    kf = [f for f in vf.known_findings().get("findings", []) if f.get("property") == pid]
    rc, shown, nknown, known_hit = 0, 0, 0, set()
    for v in viols:
        vec = by_id.get(v["id"], {})
        match = [f for f in kf if f.get("vector_id") == v["id"] or (f.get("input") is not None and f.get("input") == vec.get("in"))]
        if match:
            nknown += 1
            known_hit.add(match[0]["what"])
            continue
        shown += 1
        if shown <= 8:
            path = vf.save_replay(pid, v["id"], {"property": pid, "clause": v["viol"], "vectors": [vec]})
            print("VIOLATION property=%s replay=%s vector=%s" % (pid, path, v["id"]))
        rc = 1
    for w in sorted(known_hit):
        print("KNOWN-FINDING: property=%s %s" % (pid, w))
    cov = {"states": sum(m["states"] for m in mc) or 1, "transitions": sum(m["transitions"] for m in mc) or 1,
           "traces_validated_against_impl": len(rows), "samples": rows[:2] if rows else [],
           "evaluations": len(vecs), "distinct_nontrivial": len({json.dumps(v["in"], sort_keys=True) for v in vecs if nontrivial(v)}),
           "rule": rule, "model_checking_runs": mc, "violating_vectors": shown, "known_finding_vectors": nknown,
           "exhaustive": False}
    vf.write_evidence(pid, tier, "model_checking", cov, assumptions, time.time() - t0, violations=shown)
    print("%s %s: model states=%d, %d vectors run on the real code and validated by TLC, %d violation(s), %.0fs"
          % (pid, tier, cov["states"], len(vecs), shown, time.time() - t0))
    return rc


WASSUME = ["the OS listing is injected through the plugin's Addrs / Routes function fields (the same seam the repository's tests use); rtnetlink decoding is not on this path",
           "TLC proves Impl = Req only over listings of pool entries up to the stated length; longer random listings are validated against Req only"]


def c13(pid, tier, replay):
    return vec_check(pid, tier, replay, wildcard_vectors,
                     lambda v: sum(1 for a in v["in"].get("addrs", []) if not a["v4"] and a["bits"] == 64) >= 2,
                     "vectors = every listing (sequence with repetition, i.e. every permutation and multiplicity) of <=3 "
                     "(quick) / <=4 (thorough) entries of an 18-address pool (ULA/GUA/link-local/IPv4, /48 /64 /128, every flag, "
                     "several hosts per /64) enumerated by TLC, a failing listing, plus seeded random listings of up to 15 (40) "
                     "addresses; non-trivial = at least two IPv6 /64 addresses", WASSUME)


def c14(pid, tier, replay):
    return vec_check(pid, tier, replay, wildcard_vectors,
                     lambda v: sum(1 for a in v["in"].get("addrs", []) if not a["v4"]) >= 2,
                     "vectors = every listing of <=3 (4) pool entries enumerated by TLC x 3 static server lists, a failing "
                     "listing, plus random listings; non-trivial = at least two IPv6 addresses compete", WASSUME)


def c15(pid, tier, replay):
    return vec_check(pid, tier, replay, wildcard_vectors,
                     lambda v: len(v["in"].get("routes", [])) >= 2,
                     "vectors = every listing of <=3 (4) entries of a 13-route pool (nested prefixes at equal and different base "
                     "addresses, /128, ::/0, IPv4, duplicates by repetition) enumerated by TLC, a failing dump, plus random dumps "
                     "of up to 15 (40) routes; non-trivial = at least two routes", WASSUME)


def c16(pid, tier, replay):
    return vec_check(pid, tier, replay, deprecation_vectors,
                     lambda v: v["in"]["deprecated"] and len(v["in"]["reads"]) >= 2,
                     "vectors = every (valid in {3,5}, preferred <= valid, route lifetime in {2,4}, deprecated or not) x every "
                     "non-decreasing sequence of <=3 (4) clock readings in epoch-3..epoch+6 enumerated by TLC, each run at a unit of "
                     "1 s and 1 ns on the same plugin instance, plus random large values with readings at deadline-1/deadline; "
                     "non-trivial = deprecated with at least two readings",
                     ["the clock is injected through the plugin's TimeNow field", "integer units: sub-unit clock readings are not generated"])


# ---------------------------------------------------------------- C05 ----
COR_PKGS = {"internal/corerad": ["common/vf_util.go", "common/vf_ra.go", "corerad/vf_world.go", "corerad/vf_adv.go",
                                 "corerad/vf_mdelay.go", "corerad/vf_verify.go"],
            "internal/system": ["system/vf_export.go"]}


def c05(pid, tier, replay):
    import adv, checks_adv, advtrace
    t0 = time.time()
    thorough = tier == "thorough"
    tmp = vf.mktmp("vf-C05-")
    rng = random.Random(vf.seed() * 31337 + 5)
    mcs = []
    vecs = []
    if replay:
        rp = json.load(open(replay))
        vecs = rp.get("vectors", [])
        scen = rp.get("scenarios", [])
    else:
        # (a) function level: TLC over the accepted (min, max) grid
        runs = [("grid", dict(MaxLoS=4, MaxHiS=1800 if thorough else 150, Fracs="{0}", FullMins="TRUE"), False),
                ("boundary", dict(MaxLoS=4, MaxHiS=1800, Fracs="{0, 400, 500, 600}" if thorough else "{0, 500}", FullMins="FALSE"), True)]
        for name, c, emit in runs:
            cfg = os.path.join(tmp, "MD_%s.cfg" % name)
            consts = dict(InitCap=16000, InitCount=3, Sec=1000)
            consts.update(c)
            _cfg(cfg, "MSpec", consts, "C05_Wait C05_RangeOK" + (" EmitVec" if emit else ""))
            r = vf.tlc("MDelayMC", cfg, workdir=vf.mktmp("vf-md-"), timeout=3000, heap="8g")
            mcs.append({"config": "MDelayMC " + name, "constants": consts, "states": r["states"], "transitions": r["generated"],
                        "ok": r["ok"], "violation": r["violation"], "wall_s": round(r["wall_s"], 1)})
            if not r["ok"]:
                print("MODEL-COUNTEREXAMPLE property=C05 config=%s %s (not a verdict)" % (name, r["violation"]))
            if emit:
                rows = sorted(r["printed"], key=lambda p: p["mx"])
                step = 1 if thorough else 5
                for p in rows[::step]:
                    for mn in p["mins"]:
                        for i in (0, 2, 3):
                            vecs.append({"kind": "c05", "id": "c05-%d-%d-%d" % (p["mx"], mn, i), "in": {"i": i, "min": mn, "max": p["mx"]}})
        # random accepted pairs
        for j in range(20000 if thorough else 2000):
            mx = rng.randrange(4000, 1800001)
            upper = (3 * mx // 4) // 1000 * 1000
            mn = rng.randrange(3000, upper + 1) if rng.random() < 0.8 else (mx if mx < 9000 else (33 * mx // 100) // 1000 * 1000)
            vecs.append({"kind": "c05", "id": "c05-rand-%05d" % j, "in": {"i": rng.randrange(0, 6), "min": mn, "max": mx}})
        # (a') loop level with a consumer that is slow to take some requests (the wait is chosen after the hand-over)
        for j, (mn, mx) in enumerate([(4000, 4000), (3000, 4000), (6000, 8000), (17000, 23000), (200000, 600000)]):
            for stalls in ({}, {"1": 2 * mx + 500}, {"2": mx + 1}, {"1": mn // 2, "3": 5 * mx}, {"0": 1000, "4": 3 * mx}):
                vecs.append({"kind": "c05loop", "id": "c05loop-%d-%d" % (j, len(vecs)), "in": {"min": mn, "max": mx, "n": 7, "stalls": stalls}})
        # (b) loop level: quiet runs of the real advertiser; the gaps between multicast RAs are the chosen waits
        scen = []
        pairs = [(6000, 8000), (6000, 8001), (7000, 9400), (16000, 23000), (17000, 23000), (6500, 9500), (200000, 600000),
                 (1350000, 1800000), (-1, 8000), (-1, 6500), (6000, 20000), (15500, 21500), (-1, 19000)]
        for j in range(60 if thorough else 12):
            mx = rng.randrange(8000, 60000)
            pairs.append((rng.randrange(6000, (3 * mx // 4) // 1000 * 1000 + 1), mx))
        pairs = [(mn, mx) for mn, mx in pairs if mn < 0 or mn >= 6000]
        for n, (mn, mx) in enumerate(pairs):
            for rep in range(6 if thorough else 2):
                periods = 9
                horizon = min(periods * (mx + 1000) + 4000, 40 * 60000)
                scen.append({"id": "C05-quiet-%03d-%d" % (n, rep),
                             "cfg": {"min": mn, "max": mx, "life": -1 if mx <= 600000 else 9000, "quiet": True,
                                     "offset": rng.randrange(0, 977)},
                             "steps": [{"op": "adv", "to": horizon}, {"op": "cancel", "term": rep % 2 == 0}]})
        # "until stopped": the unsolicited RAs keep coming after whatever the solicited traffic did to the scheduler
        # (solicitations from :: inside one rate-limit window, from hosts, then silence for many periods)
        for n, (mn, mx) in enumerate([(3000, 4000), (6000, 8000), (17000, 23000)]):
            for k, burst in enumerate(([0, 100, 200], [0, 0, 0, 0, 0], [2900, 3000, 3100, 5900], [0, 1500, 3000, 4500, 6000])):
                steps, t0s = [{"op": "adv", "to": 20000}], 20000
                for j, d in enumerate(burst):
                    steps += [{"op": "adv", "to": t0s + d}, {"op": "rs", "src": "unspec" if j % 3 != 2 else "fe80::a1"}]
                steps += [{"op": "adv", "to": t0s + 10 * (mx + 1000)}, {"op": "cancel", "term": False}]
                scen.append({"id": "C05-burst-%d-%d" % (n, k), "cfg": {"min": mn, "max": mx, "life": -1, "offset": rng.randrange(0, 977)},
                             "steps": steps})
        # long sessions: the index of the advertisement keeps growing (an index that wraps re-applies the initial cap)
        longs = [((17000, 23000), 300), ((30000, 40000), 600)] + ([((200000, 600000), 300), ((17000, 23000), 70000)] if thorough else [])
        for n, ((mn, mx), periods) in enumerate(longs):
            scen.append({"id": "C05-long-%03d" % n, "cfg": {"min": mn, "max": mx, "life": -1, "quiet": True, "offset": rng.randrange(0, 977)},
                         "steps": [{"op": "adv", "to": periods * (mx + 1000)}, {"op": "cancel", "term": False}]})
    rc = 0
    nviol = 0
    rows = []
    if vecs:
        outs = run_vectors(tmp, vecs, COR_PKGS, "internal/corerad", "^TestVF_MDelay$", "C05v")
        viols, rows = validate_vectors_consts(tmp, outs)
        by_id = {v["id"]: v for v in vecs}
        for v in viols[:8]:
            path = vf.save_replay(pid, v["id"], {"property": pid, "clause": v["viol"], "vectors": [by_id.get(v["id"])]})
            print("VIOLATION property=C05 replay=%s vector=%s" % (path, v["id"]))
        nviol += len(viols)
    ntr = 0
    if scen:
        outs = adv.run_scenarios(tmp, scen, "C05s")
        viols2, ntr, nlines, samples = adv.validate(tmp, outs, "C05s")
        mine = [v for v in viols2 if "c05" in v["viol"] or v["viol"] == "panic"]
        by_id = {s["id"]: s for s in scen}
        for v in mine[:8]:
            path = vf.save_replay(pid, v["id"], {"property": pid, "clause": v["viol"], "scenarios": [by_id.get(v["id"])]})
            print("VIOLATION property=C05 replay=%s clause=%s scenario=%s" % (path, v["viol"], v["id"]))
        for v in [v for v in viols2 if v not in mine][:3]:
            print("NOTE other-property clause=%s scenario=%s" % (v["viol"], v["id"]))
        nviol += len(mine)
    rc = 1 if nviol else 0
    cov = {"states": sum(m["states"] for m in mcs) or 1, "transitions": sum(m["transitions"] for m in mcs) or 1,
           "traces_validated_against_impl": len(rows) + ntr,
           "samples": rows[:2] + scen[:1],
           "evaluations": len(vecs) + len(scen),
           "distinct_nontrivial": len({(v["in"]["min"], v["in"]["max"]) for v in vecs if v["in"]["min"] != v["in"]["max"]}),
           "rule": "function level: TLC checks ImplWait in AllowedWait for every whole-second max 4..150 s (quick) / 4..1800 s "
                   "(thorough) x every accepted whole-second min x index 0..4 x extreme/middle draws, plus boundary minimums "
                   "with sub-second parts for every max; boundary and random accepted (i, min, max) vectors run through the real "
                   "multicastDelay with scripted draws {0, 1 ns, mid, range-1 ns, random}. Loop level: quiet virtual-time runs of "
                   "the real advertiser over >= 9 periods whose multicast RA gaps are the chosen waits, judged by AdvReq. "
                   "non-trivial = distinct (min, max) pairs with min < max",
           "model_checking_runs": mcs, "quiet_loop_runs": len(scen), "violating": nviol, "exhaustive": False}
    vf.write_evidence(pid, tier, "model_checking", cov,
                      ["function-level draws are injected through a scripted rand.Source (Int63n(n) returns the scripted value when it is < n)",
                       "loop level: with MinRtrAdvInterval >= 6 s and no solicitations the rate limiter never shifts a periodic RA after the first one, so transmit instants are request instants",
                       "built with go1.26.8 for testing/synctest"], time.time() - t0, violations=nviol)
    print("C05 %s: model states=%d, %d vectors + %d quiet loop runs validated, %d violation(s), %.0fs"
          % (tier, cov["states"], len(vecs), len(scen), nviol, time.time() - t0))
    return rc


def validate_vectors_consts(tmp, outs, lines_per_batch=6000):
    rows = []
    for f in outs:
        rows += vf.read_ndjson(f)
    cfg = os.path.join(tmp, "WaitTrace.cfg")
    _cfg(cfg, "TSpec", dict(InitCap=16000, InitCount=3, Sec=1000), None, post="Consumed")
    batches = [rows[i:i + lines_per_batch] for i in range(0, len(rows), lines_per_batch)]

    def one(b):
        wd = vf.mktmp("vf-wt-")
        vf.write_ndjson(os.path.join(wd, "trace.ndjson"), b)
        r = vf.tlc("WaitTrace", cfg, workdir=wd, workers=1, timeout=1500, heap="3g")
        if not r["ok"] or r["states"] != len(b) + 1:
            raise vf.Infra("wait validation consumed %d of %d lines (%s)" % (r["states"] - 1, len(b), r["violation"]))
        return r["printed"]
    viols = []
    with concurrent.futures.ThreadPoolExecutor(max_workers=min(vf.NCPU, 14)) as ex:
        for pr in ex.map(one, batches):
            viols += pr
    return viols, rows


# ---------------------------------------------------------------- C12 ----
def _ra(**kw):
    base = {"hl": 64, "m": False, "o": False, "rpref": "medium", "life": 1800, "reach": 0, "retrans": 0, "opts": []}
    base.update(kw)
    return base


C12_ASPECTS = {
    "hl": [{"hl": 64}, {"hl": 65}, {"hl": 0}],
    "m": [{"m": False}, {"m": True}],
    "o": [{"o": False}, {"o": True}],
    "reach": [{"reach": 0}, {"reach": 1000}, {"reach": 2000}],
    "retrans": [{"retrans": 0}, {"retrans": 1000}, {"retrans": 2000}],
    "life": [{"life": 1800}, {"life": 0}, {"life": 600}],
    "rpref": [{"rpref": "medium"}, {"rpref": "high"}],
    # the two flags together (an implementation may wrongly treat one as implied by the other)
    "mo": [{"m": a, "o": b} for a in (False, True) for b in (False, True)],
    "hl-life": [{"hl": h, "life": l} for h in (64, 0) for l in (1800, 0)],
    "timers": [{"reach": a, "retrans": b} for a in (0, 1000) for b in (0, 2000)],
}
_P = lambda pfx, valid=86400, pref=14400: {"k": "prefix", "pfx": pfx, "valid": valid, "pref": pref, "onlink": True, "auto": True}
_R = lambda pfx, pref="medium", life=86400: {"k": "route", "pfx": pfx, "pref": pref, "life": life}
_D = lambda life, servers: {"k": "rdnss", "life": life, "servers": servers}
_S = lambda life, names: {"k": "dnssl", "life": life, "names": names}
C12_OPTS = {
    "mtu": [[], [{"k": "mtu", "mtu": 1500}], [{"k": "mtu", "mtu": 1280}]],
    "cp": [[], [{"k": "cp", "uri": "https://a.example/portal"}], [{"k": "cp", "uri": "https://b.example/portal"}]],
    "prefix": [[], [_P("2001:db8::/64")], [_P("2001:db8::/64", 7200, 3600)], [_P("2001:db8::/64", 86400, 3600)], [_P("2001:db8:1::/64")],
               [_P("2001:db8::/64"), _P("2001:db8:1::/64", 7200, 3600)], [_P("2001:db8::/64", 7200, 3600), _P("2001:db8::/64")],
               [_P("2001:db8::/64", -1, -1)], [_P("2001:db8::/56")], [_P("2001:db8::/64", 0, 0)], [_P("2001:db8::/64", 86400, 0)],
               [_P("2001:db8::/64", -1, 14400)]],
    "route": [[], [_R("2001:db8:f::/48")], [_R("2001:db8:f::/48", "medium", 3600)], [_R("2001:db8:f::/48", "high", 3600)],
              [_R("2001:db8:e::/48")], [_R("2001:db8:f::/48"), _R("2001:db8:e::/48", "low", 600)],
              [_R("2001:db8:f::/48", "medium", 3600), _R("2001:db8:f::/48", "medium", 86400)], [_R("2001:db8:f::/64")],
              [_R("2001:db8:f::/48", "medium", 0)], [_R("2001:db8:f::/48", "medium", -1)], [_R("2001:db8:f::/48", "high", 0)]],
    "rdnss": [[], [_D(1800, ["2001:db8::53"])], [_D(600, ["2001:db8::53"])], [_D(1800, ["2001:db8::54"])],
              [_D(1800, ["2001:db8::53", "2001:db8::54"])], [_D(1800, ["2001:db8::53"]), _D(1800, ["2001:db8::54"])],
              [_D(1800, ["2001:db8::54"]), _D(600, ["2001:db8::53"])], [_D(0, ["2001:db8::53"])], [_D(-1, ["2001:db8::53"])],
              # two options: the first differs in its number of servers, the second in lifetime / contents (each is reported)
              [_D(1800, ["2001:db8::53", "2001:db8::54"]), _D(600, ["2001:db8::53"])], [_D(1800, ["2001:db8::53"]), _D(1800, ["2001:db8::55"])]],
    "dnssl": [[], [_S(1800, ["a.example"])], [_S(600, ["a.example"])], [_S(1800, ["b.example"])],
              [_S(1800, ["a.example", "b.example"])], [_S(1800, ["a.example"]), _S(1800, ["b.example"])],
              [_S(0, ["a.example"])], [_S(-1, ["a.example"])],
              [_S(1800, ["a.example", "b.example"]), _S(600, ["c.example"])], [_S(1800, ["a.example"]), _S(1800, ["d.example"])]],
}


def c12_vectors(pid, tier, rng, tmp):
    thorough = tier == "thorough"
    vecs = []

    def add(own, theirs, tag):
        for wire in (False, True):
            vecs.append({"kind": "c12", "id": "c12-%s-%05d-%s" % (tag, len(vecs), "w" if wire else "s"),
                         "in": {"own": own, "theirs": theirs, "wire": wire, "selfwire": False}})
    common = [{"k": "lla", "addr": "02:00:00:00:00:01"}]
    # per aspect, exhaustive on both sides
    for name, vals in C12_ASPECTS.items():
        for a in vals:
            for b in vals:
                add(_ra(opts=common, **a), _ra(opts=[], **b), "hdr-" + name)
    for name, vals in C12_OPTS.items():
        for a in vals:
            for b in vals:
                add(_ra(opts=a + common), _ra(opts=list(b)), "opt-" + name)
    # pairwise across aspects (merge order, independence)
    names = list(C12_OPTS)
    for i, n1 in enumerate(names):
        for n2 in names[i + 1:]:
            for a1 in C12_OPTS[n1][:4]:
                for b1 in C12_OPTS[n1][:4]:
                    a2, b2 = rng.choice(C12_OPTS[n2]), rng.choice(C12_OPTS[n2])
                    add(_ra(opts=a1 + a2), _ra(opts=b2 + b1, hl=rng.choice([64, 64, 65])), "pair-%s-%s" % (n1, n2))
    # random larger RAs and self round trips
    def rand_ra():
        opts = []
        for n, vals in C12_OPTS.items():
            opts += rng.choice(vals)
        rng.shuffle(opts)
        hdr = {}
        for n, vals in C12_ASPECTS.items():
            hdr.update(rng.choice(vals))
        return _ra(opts=opts, **hdr)
    for j in range(6000 if thorough else 600):
        add(rand_ra(), rand_ra(), "rand")
    def nodup(ra):
        seen = set()
        for o in ra["opts"]:
            if o["k"] in ("prefix", "route"):
                if (o["k"], o["pfx"]) in seen:
                    return False
                seen.add((o["k"], o["pfx"]))
        return True
    for j in range(2000 if thorough else 300):
        own = rand_ra()
        while not nodup(own):       # an accepted configuration never repeats a prefix or route
            own = rand_ra()
        vecs.append({"kind": "c12", "id": "c12-self-%05d" % j, "in": {"own": own, "theirs": own, "wire": True, "selfwire": True}})
    # spec-level lemmas of the requirement over every pair of RAs from a small domain
    cfg = os.path.join(tmp, "VerifyMC.cfg")
    _cfg(cfg, "MSpec", dict(Small="FALSE" if thorough else "TRUE"), "Reflexive SymEmpty AbsentSide Bounded")
    r = vf.tlc("VerifyMC", cfg, workdir=vf.mktmp("vf-vmc-"), timeout=3000, heap="8g")
    mc = {"config": "VerifyMC Small=%s" % (not thorough), "states": r["states"], "transitions": r["generated"], "ok": r["ok"],
          "violation": r["violation"], "wall_s": round(r["wall_s"], 1)}
    return [mc], vecs


def c12_with_prev(pid, tier, rng, tmp):
    mcs, vecs = c12_vectors(pid, tier, rng, tmp)
    # the advertiser has transmitted before the other router's RA arrives, with its dynamic content in an earlier state
    # (equal to the other router's options, or to those of an unrelated vector): the comparison is with the current RA
    plain = [v for v in vecs if not v["in"].get("selfwire")]
    extra = []
    for j, v in enumerate(plain[::3]):
        w = json.loads(json.dumps(v))
        src = v["in"]["theirs"] if j % 2 == 0 else plain[(7 * j + 11) % len(plain)]["in"]["own"]
        w["in"]["prev"] = {"opts": src.get("opts", [])}
        w["id"] = v["id"] + "-prev"
        extra.append(w)
    return mcs, vecs + extra


def c12(pid, tier, replay):
    return vec_check(pid, tier, replay, c12_with_prev,
                     lambda v: v["in"]["own"] != v["in"]["theirs"],
                     "vectors = for every header field and option kind the full {absent, v1, v2, ...} x {absent, v1, v2, ...} "
                     "cross of own and received values (both orders), pairwise products across option kinds, random larger RAs, "
                     "each with the received RA as distinct structs and after a wire round trip, plus own RAs compared with their "
                     "own round trip; every vector goes through verifyRAs and through Advertiser.handle (counters, log, hook), a third of them "
                     "again after the advertiser has transmitted an RA whose options were in an earlier state; "
                     "non-trivial = own and received differ",
                     ["the 'own' RA is produced by a config.Interface whose plugin list is a harness plugin appending the scripted options",
                      "route prefixes use byte-aligned lengths (the pinned ndp decoder drops a trailing partial byte)",
                      "TLC evaluates Problems(own, theirs) (spec/Verify.tla) on the RAs as the code saw them; the model run (VerifyMC) checks lemmas of the requirement itself (self-consistency, symmetric emptiness, absent side) over every pair of a small domain"],
                     pkgs=COR_PKGS12, pkgdir="internal/corerad", testname="^TestVF_Verify$", module="VerifyTrace")


COR_PKGS12 = {"internal/corerad": ["common/vf_util.go", "common/vf_ra.go", "corerad/vf_world.go", "corerad/vf_adv.go",
                                   "corerad/vf_mdelay.go", "corerad/vf_verify.go"],
              "internal/system": ["system/vf_export.go"]}
