"""Regenerates MANIFEST.json from lib/manifest_data.py (claimed checks) and
properties.jsonl (everything else goes to not_applicable with a reason)."""
import json, os, sys
sys.path.insert(0, os.path.dirname(os.path.abspath(__file__)))
import manifest_data as md

V = os.path.dirname(os.path.dirname(os.path.abspath(__file__)))
props = [json.loads(l) for l in open(os.path.join(V, "properties.jsonl"))]
checks = []
for p in props:
    pid = p["id"]
    if pid not in md.CLAIMS:
        continue
    c = md.CLAIMS[pid]
    checks.append({
        "property_id": pid,
        "quick_cmd": "./check %s --tier quick" % pid,
        "thorough_cmd": "./check %s --tier thorough" % pid,
        "evidence_file": "/verif/evidence/%s.json" % pid,
        "replay_cmd_template": "./check %s --replay {path}" % pid,
        "engine": c["engine"],
        "level_claimed": {"category": "model_checking", "text": c["text"], "design_ref": c["design_ref"]},
        "level_note": c["note"],
        "technique": c["technique"],
    })
na = [{"property_id": p["id"], "reason": md.NOT_YET.get(p["id"], "check not built yet (planned in DESIGN.md section 4)")}
      for p in props if p["id"] not in md.CLAIMS]
m = {
    "version": 1,
    "setup_cmd": "./setup.sh",
    "hooks": {
        "guard": "verif",
        "enable": "no guarded source exists in /repo: harness files from /verif/harness are injected into /repo's current working tree at build time with `go test -overlay` (go1.26.8, GOTOOLCHAIN=local, GODEBUG=asynctimerchan=0 for testing/synctest)",
        "baseline_off_cmd": "cd /repo && GOPROXY=off go test -vet=off -count=1 -timeout 25m ./...",
        "source_commits": [],
        "add_only": True,
    },
    "engines": md.ENGINES,
    "checks": checks,
    "notes": md.NOTES,
    "not_applicable": na,
}
json.dump(m, open(os.path.join(V, "MANIFEST.json"), "w"), indent=1)
print("MANIFEST.json: %d checks, %d not_applicable" % (len(checks), len(na)))
