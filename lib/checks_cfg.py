"""C02 (accept iff constraints, defaults), C01 (RA content), C03 (wire).
Documents are generated from the statement's constraint table (boundary values
per key, interaction products, random structured documents, raw bytes), parsed
by the real config.Parse; TLC (ConfigTrace / RATrace) decides."""
import binascii, copy, json, os, random, time
import vf, cfgdoc as C
import checks_vec

CFG_PKGS = {"internal/config": ["common/vf_util.go", "common/vf_ra.go", "config/vf_config.go"]}
K = C.K
S = 1000
H = 3600 * S
INF = C.INF_S * 1000


def dur_values(lo_ms, hi_ms, extra=()):
    """Boundary set for a duration key valid in [lo, hi]."""
    vals = [K("val", lo_ms), K("val", hi_ms), K("val", (lo_ms + hi_ms) // 2)]
    if lo_ms - 1 >= -10 ** 12:
        vals.append(K("val", lo_ms - 1))
    vals += [K("val", lo_ms + 1), K("val", hi_ms - 1), K("val", hi_ms + 1), K("val", -1000, "-1s"), K("val", -1, "-1ms"),
             K("val", 500), K("bad"), K("bad", text="10"), K("bad", text="1d")]
    return vals + list(extra)


def c02_docs(tier, rng):
    thorough = tier == "thorough"
    docs = []

    def add(tag, doc):
        docs.append(("%s-%05d" % (tag, len(docs)), doc))

    def one(**kw):
        return C.document([C.table(**kw)])
    add("base", one())
    add("base", one(prefixes=[C.prefix()], rdnss_=[C.rdnss()], dnssl_=[C.dnssl()], routes=[C.route()], pref64_=[C.pref64()],
                    mtu=1500, captive="https://portal.example/", hop=0))
    # --- interfaces / names ---
    add("names", C.document([]))
    add("names", one(name="", names=[]))
    add("names", one(name="eth0", names=["eth1"]))
    add("names", one(name="", names=["eth0", "eth1"]))
    add("names", one(name="", names=["eth0", "eth0"]))
    add("names", C.document([C.table(name="eth0"), C.table(name="eth0")]))
    add("names", C.document([C.table(name="eth0"), C.table(name="", names=["eth1", "eth0"])]))
    add("names", C.document([C.table(name="eth0"), C.table(name="eth1", monitor=True, advertise=False), C.table(name="eth2", advertise=False)]))
    add("names", C.document([C.table(name="eth0", monitor=True, advertise=False), C.table(name="eth0", monitor=True, advertise=False)]))
    # --- monitor / advertise x an invalid advertising key ---
    for mon in (False, True):
        for adv in (False, True):
            for bad in (False, True):
                add("mode", one(monitor=mon, advertise=adv, verbose=bad, max=K("val", 2000) if bad else None,
                                prefixes=[C.prefix("10.0.0.0/8")] if bad else []))
    # --- max_interval ---
    for v in dur_values(4 * S, 1800 * S, [K("empty"), K("auto"), K("infinite"), K("val", 8999), K("val", 9000), K("val", 600 * S)]):
        add("max", one(max=v))
    # --- min_interval for several max values (incl. truncation of 0.75*max and of the default) ---
    maxes = [4000, 4001, 4500, 5334, 8999, 9000, 9090, 9091, 10000, 10001, 13333, 600000, 1799000, 1800000]
    if thorough:
        maxes += list(range(4000, 12001, 250)) + [rng.randrange(4000, 1800001) for _ in range(150)]
    for mx in maxes:
        upper = (3 * mx // 4) // 1000 * 1000
        for mn in {2999, 3000, 3001, upper - 1000, upper - 1, upper, upper + 1, upper + 999, upper + 1000, (3000 + upper) // 2}:
            if mn > 0:
                add("min", one(max=K("val", mx), min=K("val", mn)))
        for st in ("absent", "empty", "auto", "infinite", "bad"):
            add("min", one(max=K("val", mx), min=K(st)))
        add("min", one(max=K("val", mx), min=K("val", -3000, "-3s")))
        # default_lifetime against this max
        for lt in {0, 1, mx - 1, mx, mx + 1, 3 * mx, 9000 * S - 1, 9000 * S, 9000 * S + 1}:
            add("life", one(max=K("val", mx), life=K("val", lt)))
        for st in ("absent", "empty", "auto", "infinite", "bad"):
            add("life", one(max=K("val", mx), life=K(st)))
        add("life", one(max=K("val", mx), life=K("val", -1000, "-1s")))
    # --- timers, hop limit, mtu, preference, flags ---
    for key in ("reach", "retrans"):
        for v in dur_values(0, H, [K("empty"), K("auto"), K("infinite"), K("val", 1), K("val", 1500)]):
            add(key, one(**{key: v}))
    for hop in (-1, 0, 1, 64, 255, 256, 1000):
        add("hop", one(hop=hop))
    for mtu in (-1, 1, 1280, 1500, 65535, 65536, 65537):
        add("mtu", one(mtu=mtu))
    for p in ("medium", "low", "high", "High", "x", "default"):
        add("pref", one(preference=p))
        add("pref", one(routes=[C.route("2001:db8:f::/48", preference=p)]))
    for lla in ("absent", "true", "false"):
        add("lla", one(lla=lla, managed=True, other=True, unicast=True, verbose=True))
    for cp in ("https://portal.example/x", "urn:ietf:params:capport:unrestricted"):
        add("cp", one(captive=cp))
    # --- prefix stanza ---
    nets = ["", "::/64", "::/48", "::/0", "2001:db8::/64", "2001:db8::1/64", "2001:db8::1/128", "2001:db8::/128", "2001:db8::/56",
            "10.0.0.0/8", "::ffff:10.0.0.0/104", "garbage", "2001:db8::", "fe80::/10", "2001:DB8::/64"]
    for n in nets:
        add("pfxnet", one(prefixes=[C.prefix(n)]))
        add("rtnet", one(routes=[C.route(n)]))
    lifes = [K("absent"), K("auto"), K("empty"), K("infinite"), K("val", 0), K("val", 1), K("val", S), K("val", H), K("val", 4 * H), K("val", 24 * H),
             K("val", 24 * H + 1), K("val", (2**31 - 1) * 1000), K("val", -1000, "-1s"), K("val", INF, "4294967295s"), K("val", INF + 1000, "4294967296s"),
             K("val", 1753200 * H, "1753200h"), K("bad")]
    for v in lifes:
        for p in (lifes if thorough else [K("absent"), K("infinite"), K("val", H), K("val", 4 * H), K("val", -2000, "-2s"), K("val", 24 * H + 1), K("empty")]):
            for dep in (False, True):
                add("pfxlife", one(prefixes=[C.prefix("2001:db8::/64", valid=copy.deepcopy(v), pref=copy.deepcopy(p), deprecated=dep)]))
        for dep in (False, True):
            add("rtlife", one(routes=[C.route("2001:db8:f::/48", life=copy.deepcopy(v), deprecated=dep)]))
        add("dnslife", one(rdnss_=[C.rdnss(["2001:db8::53"], life=copy.deepcopy(v))]))
        add("dnslife", one(dnssl_=[C.dnssl(life=copy.deepcopy(v))], max=K("val", 7 * S)))
    for ol in ("absent", "true", "false"):
        for au in ("absent", "true", "false"):
            add("pfxflags", one(prefixes=[C.prefix("2001:db8::/64", onlink=ol, auto=au)]))
    # --- pairs of prefixes / routes from an overlap pool ---
    pool = ["", "::/64", "2001:db8::/64", "2001:db8::/48", "2001:db8:0:1::/64", "2001:db8:1::/48", "2001:db8::/32", "fd00::/8", "2001:db8::/65"]
    for a in pool:
        for b in pool:
            add("pfxpair", one(prefixes=[C.prefix(a), C.prefix(b)]))
    rpool = ["", "::/0", "2001:db8::/64", "2001:db8::/48", "2001:db8:1::/48", "2001:db8::1/128", "fd00::/8"]
    for a in rpool:
        for b in rpool:
            add("rtpair", one(routes=[C.route(a), C.route(b)]))
    # triples: the overlapping pair at every position relative to a third (wildcard or unrelated) stanza, both orders
    for third in ("", "::/64", "2001:db8:9::/64"):
        for a, b in (("2001:db8::/64", "2001:db8::/48"), ("2001:db8::/48", "2001:db8::/64"), ("2001:db8::/64", "2001:db8:1::/64")):
            for order in ([third, a, b], [a, third, b], [a, b, third]):
                add("pfxtriple", one(prefixes=[C.prefix(x) for x in order]))
    for third in ("", "::/0", "2001:db8:9::/48"):
        for a, b in (("2001:db8::/64", "2001:db8::/48"), ("2001:db8::/48", "2001:db8::/64"), ("2001:db8::/64", "2001:db8:1::/48")):
            for order in ([third, a, b], [a, third, b], [a, b, third]):
                add("rttriple", one(routes=[C.route(x) for x in order]))
    # --- rdnss servers / dnssl names ---
    for sv in ([], ["::"], ["::", "::"], ["2001:db8::53"], ["2001:db8::53", "2001:db8::53"], ["2001:db8::53", "2001:DB8::53"],
               ["2001:db8::54", "2001:db8::53"], ["::", "2001:db8::54", "2001:db8::53"], ["fd00::1", "2001:db8::53", "fe80::1"],
               ["192.0.2.1"], ["::ffff:192.0.2.1"], ["nope"], ["2001:db8::53", "::", "2001:db8::1", "::"], ["2001:db8::53/64"]):
        add("servers", one(rdnss_=[C.rdnss(sv)]))
    for nm in ([], [""], ["a.example"], ["a.example", "a.example"], ["a.example", "b.example"], ["b.example", "", "a.example"], ["A.example", "a.example"]):
        add("names2", one(dnssl_=[C.dnssl(nm)]))
    add("multi", one(rdnss_=[C.rdnss(["2001:db8::53"]), C.rdnss(["2001:db8::53"])], dnssl_=[C.dnssl(["a.example"]), C.dnssl(["a.example"])]))
    # --- pref64 ---
    for n in (None, "", "64:ff9b::/96", "2001:db8::/64", "2001:db8::/56", "2001:db8::/48", "2001:db8::/40", "2001:db8::/32", "64:ff9b::/100",
              "64:ff9b::/128", "2001:db8::/72", "2001:db8::/80", "2001:db8::/88", "2001:db8::/24", "2001:db8::/0", "10.0.0.0/8", "1.2.3.4/32",
              "garbage", "::ffff:0:0/96"):
        for mx in (4000, 5900, 10667, 600000, 1800000):
            add("pref64", one(pref64_=[C.pref64(n)], max=K("val", mx)))
    # --- debug ---
    for ad in ("", "127.0.0.1:9430", ":9430", "[::1]:9430", "127.0.0.1", "127.0.0.1:99999", "[::1]", ":x"):
        for pr in (False, True):
            add("debug", C.document([C.table()], debug_addr=ad, prometheus=pr, pprof=not pr))
    for lvl in ("top", "iface", "stanza"):
        add("unknown", C.document([C.table(prefixes=[C.prefix()])], unknown=lvl))
    # --- random structured documents ---
    for j in range(6000 if thorough else 500):
        add("rand", rand_doc(rng))
    return docs


def rand_doc(rng):
    def rk(lo, hi, default_ok=True):
        r = rng.random()
        if r < 0.35 and default_ok:
            return K(rng.choice(["absent", "auto", "empty"]))
        if r < 0.4:
            return K(rng.choice(["infinite", "bad"]))
        if r < 0.9:
            return K("val", rng.randrange(lo, hi + 1))
        return K("val", rng.choice([lo - 1, hi + 1, -1000, 0, lo, hi]))
    tables = []
    names = ["eth%d" % i for i in range(4)]
    for t in range(rng.choice([1, 1, 1, 2, 3])):
        mx = rng.choice([None, None, 4000, 8999, 9000, 30000, 600000, 1800000, rng.randrange(3000, 1900000)])
        mxk = K("val", mx) if mx is not None else None
        mxv = mx if mx is not None else 600000
        upper = (3 * mxv // 4) // 1000 * 1000
        mode = rng.choice(["adv", "adv", "adv", "mon", "none", "both"])
        pnets = rng.sample(["", "2001:db8::/64", "2001:db8:1::/64", "fd00::/48", "2001:db8:2::/56", "2001:db8::/48", "10.0.0.0/8"], rng.choice([0, 0, 1, 1, 2, 3]))
        rnets = rng.sample(["", "2001:db8:a::/48", "2001:db8:b::/48", "2001:db8:a:1::/64", "2001:db8:c::1/128"], rng.choice([0, 0, 1, 2]))
        tables.append(C.table(
            name=rng.choice(names) if rng.random() < 0.8 else "", names=rng.sample(names, rng.choice([0, 0, 0, 1, 2])),
            monitor=mode in ("mon", "both"), advertise=mode in ("adv", "both"), verbose=rng.random() < 0.3, managed=rng.random() < 0.3,
            other=rng.random() < 0.3, unicast=rng.random() < 0.2, max=mxk,
            min=rng.choice([None, K("auto"), K("val", rng.randrange(2000, max(upper, 3000) + 2000))]),
            life=rng.choice([None, K("auto"), K("empty"), K("val", 0), K("val", rng.randrange(0, 9500 * S))]),
            reach=rng.choice([None, K("val", rng.randrange(0, 2 * H))]), retrans=rng.choice([None, K("val", rng.randrange(0, 2 * H))]),
            hop=rng.choice([None, None, 0, 64, 255, 256]), mtu=rng.choice([0, 0, 1500, 9000, 65536, 70000]),
            preference=rng.choice(["", "", "low", "medium", "high", "bogus"]), lla=rng.choice(["absent", "true", "false"]),
            captive=rng.choice(["", "", "https://portal.example/"]),
            prefixes=[C.prefix(n, valid=rk(1, 40 * 24 * H), pref=rk(1, 24 * H), deprecated=rng.random() < 0.2,
                               onlink=rng.choice(["absent", "true", "false"]), auto=rng.choice(["absent", "true", "false"])) for n in pnets],
            routes=[C.route(n, preference=rng.choice(["", "low", "high"]), life=rk(1, 40 * 24 * H), deprecated=rng.random() < 0.2) for n in rnets],
            rdnss_=[C.rdnss(rng.sample(["::", "2001:db8::53", "2001:db8::54", "fd00::53", "192.0.2.1"], rng.choice([0, 1, 2, 3])),
                            life=rk(0, 10 * H)) for _ in range(rng.choice([0, 0, 1, 2]))],
            dnssl_=[C.dnssl(rng.sample(["a.example", "b.example", "c.example", ""], rng.choice([1, 1, 2, 3])), life=rk(0, 10 * H))
                    for _ in range(rng.choice([0, 0, 1]))],
            pref64_=[C.pref64(rng.choice([None, "", "64:ff9b::/96", "2001:db8:64::/56", "2001:db8:64::/72", "10.0.0.0/8"]))
                     for _ in range(rng.choice([0, 0, 0, 1]))]))
    return C.document(tables, debug_addr=rng.choice(["", "", "127.0.0.1:9430", "bad"]), prometheus=rng.random() < 0.5,
                      pprof=rng.random() < 0.5, unknown=rng.choice(["none"] * 12 + ["top", "iface"]))


def raw_inputs(tier, rng, docs):
    """Arbitrary bytes and byte-mutated valid documents: only totality (no panic) is claimed."""
    out = []
    n = 4000 if tier == "thorough" else 400
    texts = [C.render(d) for _, d in docs[:200]]
    for j in range(n):
        r = rng.random()
        if r < 0.3:
            b = bytes(rng.getrandbits(8) for _ in range(rng.randrange(0, 200)))
        else:
            t = bytearray(rng.choice(texts).encode())
            for _ in range(rng.randrange(1, 6)):
                if not t:
                    break
                k = rng.randrange(len(t))
                op = rng.random()
                if op < 0.4:
                    t[k] = rng.getrandbits(8)
                elif op < 0.7:
                    del t[k]
                else:
                    t.insert(k, rng.choice(b'[]"=\n#.\\x00{}\',-0123456789'))
            b = bytes(t)
        out.append({"kind": "raw", "id": "raw-%05d" % j, "hex": binascii.hexlify(b).decode()})
    return out


def run_cfg(tmp, vecs, tag):
    return checks_vec.run_vectors(tmp, vecs, CFG_PKGS, "internal/config", "^TestVF_Config$", tag)


def c02(pid, tier, replay):
    t0 = time.time()
    tmp = vf.mktmp("vf-C02-")
    rng = random.Random(vf.seed() * 7727 + 2)
    if replay:
        vecs = json.load(open(replay))["vectors"]
    else:
        docs = c02_docs(tier, rng)
        vecs = [{"kind": "doc", "id": "c02-" + i, "toml": C.render(d), "doc": C.strip(d)} for i, d in docs]
        vecs += raw_inputs(tier, rng, docs)
    outs = run_cfg(tmp, vecs, "C02")
    viols, rows = checks_vec.validate_vectors(tmp, outs, module="ConfigTrace", lines_per_batch=1500)
    by_id = {v["id"]: v for v in vecs}
    kf = [f for f in vf.known_findings().get("findings", []) if f.get("property") == pid]
    rc, shown = 0, 0
    for v in viols:
        shown += 1
        if shown <= 10:
            path = vf.save_replay(pid, v["id"], {"property": pid, "clause": v["viol"], "vectors": [by_id.get(v["id"])]})
            print("VIOLATION property=C02 replay=%s clause=%s document=%s" % (path, v["viol"], v["id"]))
        rc = 1
    nacc = sum(1 for r in rows if r.get("out", {}).get("accepted"))
    cov = {"states": len(rows) + 1, "transitions": len(rows), "traces_validated_against_impl": len(rows),
           "samples": [{"id": vecs[1]["id"], "toml": vecs[1].get("toml", "")[:600]}, rows[1] if len(rows) > 1 else {}],
           "evaluations": len(vecs), "distinct_nontrivial": len({v.get("toml", v.get("hex")) for v in vecs}),
           "accepted": nacc, "rejected": len(rows) - nacc,
           "rule": "documents = for every key of the statement's constraint table the boundary set {omitted, \"\", auto, infinite, limit-1 "
                   "unit, limit, limit+1 unit, mid, negative, sub-second, above 2^32-1 s, malformed} in units of 1 ms and 1 s, with "
                   "products for interacting keys (max x min incl. truncation of 0.75*max and of the 0.33*max default; max x default "
                   "lifetime; valid x preferred x deprecated; all pairs of an overlap pool for prefixes and for routes; name/names/"
                   "uniqueness across tables; monitor x advertise x an invalid advertising key; pref64 prefix pool x max; debug "
                   "address pool; unknown key at three levels), seeded random structured documents, plus raw / byte-mutated inputs "
                   "(totality only). non-trivial = distinct documents. states/transitions = states of the TLC validation runs "
                   "(Accept/Elab are evaluated by TLC on every document)",
           "violating_documents": shown, "exhaustive": False}
    vf.write_evidence(pid, tier, "model_checking", cov,
                      ["string syntax (duration text, CIDR text, address text) is classified by the generator (python ipaddress / exact "
                       "duration rendering), not by the specification",
                       "debug addresses are IP literals only (no DNS)", "captive portal URIs are well-formed (the statement lists no constraint)",
                       "durations between 2^31 s and 2^32-1 s are not generated (TLC integers); values at and above 2^32-1 s are"],
                      time.time() - t0, violations=shown)
    print("C02 %s: %d documents (%d accepted, %d rejected) + raw inputs parsed by the real code and judged by TLC, %d violation(s), %.0fs"
          % (tier, len(rows), nacc, len(rows) - nacc, shown, time.time() - t0))
    return rc


# ------------------------------------------------------------ C01 / C03 ----
APOOL = checks_vec.APOOL
RPOOL = checks_vec.RPOOL


def sys_states(rng, n):
    out = []
    for _ in range(n):
        addrs = [dict(rng.choice(APOOL)) for _ in range(rng.choice([0, 1, 2, 3, 4, 6]))]
        routes = [dict(rng.choice(RPOOL)) for _ in range(rng.choice([0, 1, 2, 3, 5]))]
        out.append({"fwd": rng.random() < 0.6, "mac": rng.random() < 0.8, "addrs": addrs, "routes": routes,
                    "clock": rng.choice([-5, 0, 1, 3599, 3600, 3601, 7199, 7200, 7201, 86399, 86400, 90000, 10 ** 7]),
                    "addrfail": rng.random() < 0.05, "routefail": rng.random() < 0.05})
    return out


def ra_docs(tier, rng):
    thorough = tier == "thorough"
    docs = []
    P, R, D, L, X = C.prefix, C.route, C.rdnss, C.dnssl, C.pref64
    dep = lambda ms: K("val", ms)
    stanza_sets = {
        "prefixes": [[], [P()], [P("2001:db8::/64")], [P("2001:db8::/64", valid=dep(7200 * S), pref=dep(3600 * S), deprecated=True)],
                     [P("2001:db8:1::/64", valid=K("infinite"), pref=K("val", 1500)), P()],
                     [P("fd00::/48", onlink="false", auto="false"), P("2001:db8::/56", valid=dep(86400 * S), pref=dep(3600 * S), deprecated=True)]],
        "routes": [[], [R()], [R("2001:db8:f::/48")], [R("2001:db8:f::/48", "high", dep(3600 * S), True)],
                   [R(), R("2001:db8:e::/48", "low", K("infinite")), R("2001:db8:d::1/128")]],
        "rdnss_": [[], [D()], [D(["2001:db8::53"])], [D(["::", "2001:db8::54", "2001:db8::53"], K("val", 1500))],
                   [D(["2001:db8::53"], K("empty")), D([], K("infinite"))]],
        "dnssl_": [[], [L()], [L(["a.example", "b.example"], K("val", 90500))]],
        "pref64_": [[], [X()], [X("2001:db8:64::/56")], [X("2001:db8::/32"), X("64:ff9b::/96")]],
    }
    keys = list(stanza_sets)
    hdrs = [dict(), dict(hop=0, managed=True, other=True, preference="high", life=K("val", 0)), dict(hop=255, reach=K("val", 1500), retrans=K("val", 1), preference="low"),
            dict(max=K("val", 5900), mtu=1500, captive="https://portal.example/", lla="false"), dict(max=K("val", 10667), life=K("val", 9000 * S), mtu=65536),
            dict(max=K("val", 1800 * S), min=K("val", 1350 * S), captive="urn:ietf:params:capport:unrestricted", lla="true", unicast=True)]
    # every single choice with the others empty, then random combinations
    for k in keys:
        for choice in stanza_sets[k]:
            for h in hdrs[:3]:
                docs.append(C.document([C.table(**dict(h, **{k: choice}))]))
    # element counts 0..9 for every list the build copies or extends (a slice with spare capacity that is extended
    # in place only shows up for particular lengths, and only from the second build on)
    srv = ["2001:db8::%x" % (0x50 + i) for i in range(9)]
    for n in range(0, 10):
        docs.append(C.document([C.table(rdnss_=[D(["::"] + srv[:n], K("val", 1500))])]))
        if n:
            docs.append(C.document([C.table(rdnss_=[D(srv[:n])])]))
            docs.append(C.document([C.table(rdnss_=[D(srv[:n] + ["::"])], dnssl_=[L(["n%d.example" % i for i in range(n)])])]))
            docs.append(C.document([C.table(prefixes=[P()] + [P("2001:db8:%x::/64" % i) for i in range(n)],
                                            routes=[R()] + [R("2001:db8:%x::/48" % (0xf0 + i)) for i in range(n)])]))
            docs.append(C.document([C.table(prefixes=[P("2001:db8:%x::/64" % i) for i in range(n)] + [P("2001:db8::/56")],
                                            routes=[R("2001:db8:%x::/48" % (0xf0 + i)) for i in range(n)] + [R()],
                                            rdnss_=[D(["::"] + srv[:n]), D(srv[:n])])]))
    # PREF64 lifetime = 3 x MaxRtrAdvInterval rounded UP to a multiple of 8 s: intervals whose triple lies just above,
    # exactly on and just below a multiple of 8 s, whole and fractional, up to the 65528 s cap
    for ms in ([4000, 5333, 5334, 5500, 7999, 8000, 8001, 8100, 10666, 10667, 10668, 13334, 600000, 600250, 600333, 1800000, 1799999] +
               [rng.randrange(4000, 1800001) for _ in range(40 if thorough else 12)] +
               [8000 * k // 3 + d for k in (2, 3, 5, 100, 675) for d in (-1, 0, 1, 2, 333, 334)]):
        if 4000 <= ms <= 1800000:
            docs.append(C.document([C.table(max=K("val", ms), min=K("val", 3000), pref64_=[X()])]))
    for j in range(4000 if thorough else 500):
        kw = dict(rng.choice(hdrs))
        for k in keys:
            kw[k] = rng.choice(stanza_sets[k])
        tables = [C.table(**kw)]
        r = rng.random()
        if r < 0.25:        # a names group: the members must not share option state
            tables = [C.table(**dict(kw, name="", names=["eth0", "eth1", "eth2"][:rng.choice([2, 3])]))]
        elif r < 0.4:
            kw2 = dict(rng.choice(hdrs))
            for k in keys:
                kw2[k] = rng.choice(stanza_sets[k])
            tables.append(C.table(**dict(kw2, name="wan0")))
            tables.append(C.table(name="mon0", monitor=True, advertise=False))
            if rng.random() < 0.5:      # an interface that is configured but does nothing, before / between the active ones
                tables.insert(rng.choice([0, 1]), C.table(name="idle0", advertise=False))
        docs.append(C.document(tables))
    states = sys_states(rng, 40)
    vecs = []
    for i, d in enumerate(docs):
        for s in ([states[i % len(states)], rng.choice(states)] if thorough else [states[i % len(states)]]):
            vecs.append({"kind": "doc", "id": "ra-%05d" % len(vecs), "toml": C.render(d), "doc": C.strip(d), "sys": s})
    return vecs


def ra_check(pid, tier, replay, want, extra_docs, rule, assumptions):
    t0 = time.time()
    tmp = vf.mktmp("vf-%s-" % pid)
    rng = random.Random(vf.seed() * 9176 + int(pid[1:]))
    mcs = []
    if replay:
        vecs = json.load(open(replay))["vectors"]
    else:
        if True:
            # specification-level theorem: Accept(doc) => Encodable(BuildRA(Elab(doc), sys)) etc. (ConfigMC), and the PREF64
            # lifetime lemma over every accepted MaxRtrAdvInterval in milliseconds (an ASSUME, evaluated once)
            cfgp = os.path.join(tmp, "ConfigMC.cfg")
            stride = 1 if tier == "thorough" else 37
            open(cfgp, "w").write("SPECIFICATION MSpec\nCONSTANT P64Stride = %d\nINVARIANTS Theorem\nCHECK_DEADLOCK FALSE\n" % stride)
            r = vf.tlc("ConfigMC", cfgp, workdir=vf.mktmp("vf-cmc-"), timeout=1500, heap="8g")
            mcs.append({"config": "ConfigMC: Accept => Encodable(BuildRA(Elab)) over boundary documents x system states; "
                                  "Pref64Lemma over %d interval values" % ((1800000 - 4000) // stride + 1),
                        "states": r["states"], "transitions": r["generated"], "ok": r["ok"], "violation": r["violation"],
                        "wall_s": round(r["wall_s"], 1)})
            if not r["ok"]:
                print("MODEL-COUNTEREXAMPLE property=%s ConfigMC %s (not a verdict)" % (pid, r["violation"]))
        vecs = ra_docs(tier, rng)
        if extra_docs:
            default_sys = sys_states(random.Random(5), 8)
            for n, (i, d) in enumerate(c02_docs(tier, rng)):
                vecs.append({"kind": "doc", "id": "ra-c02-" + i, "toml": C.render(d), "doc": C.strip(d), "sys": default_sys[n % 8]})
    outs = run_cfg(tmp, vecs, pid)
    viols, rows = checks_vec.validate_vectors(tmp, outs, module="RATrace", lines_per_batch=600)
    by_id = {v["id"]: v for v in vecs}
    mine = [v for v in viols if want(v["viol"])]
    rc, shown = 0, 0
    for v in mine:
        shown += 1
        if shown <= 10:
            path = vf.save_replay(pid, v["id"], {"property": pid, "clause": v["viol"], "vectors": [by_id.get(v["id"])]})
            print("VIOLATION property=%s replay=%s clause=%s document=%s" % (pid, path, v["viol"], v["id"]))
        rc = 1
    for v in [v for v in viols if not want(v["viol"])][:3]:
        print("NOTE other-property clause=%s document=%s" % (v["viol"], v["id"]))
    nacc = sum(1 for r in rows if r.get("out", {}).get("accepted"))
    nras = sum(len(r["out"].get("ras", [])) for r in rows if r.get("out", {}).get("accepted"))
    cov = {"states": sum(m["states"] for m in mcs) + len(rows) + 1, "transitions": sum(m["transitions"] for m in mcs) + len(rows),
           "model_checking_runs": mcs, "traces_validated_against_impl": nras,
           "samples": [{"id": vecs[0]["id"], "toml": vecs[0]["toml"][:500], "sys": vecs[0]["sys"]}, rows[0]["out"]["ras"][:1] if rows and rows[0]["out"].get("ras") else {}],
           "evaluations": len(vecs), "distinct_nontrivial": len({(v["toml"], json.dumps(v["sys"], sort_keys=True)) for v in vecs if "[[interfaces." in v["toml"]}),
           "accepted_documents": nacc, "ras_built_and_judged": nras, "rule": rule, "violating": shown, "exhaustive": False}
    vf.write_evidence(pid, tier, "model_checking", cov, assumptions, time.time() - t0, violations=shown)
    print("%s %s: %d documents (%d accepted), %d RAs built by the real code and judged by TLC, %d violation(s), %.0fs"
          % (pid, tier, len(rows), nacc, nras, shown, time.time() - t0))
    return rc


def c01(pid, tier, replay):
    return ra_check(pid, tier, replay, lambda c: "c01" in c, False,
                    "documents = every choice of each stanza kind (none / wildcard / static / deprecated / several; pref64 incl. two "
                    "stanzas) alone with three header variants, then random combinations over all kinds incl. `names` groups and "
                    "multi-table documents, x system states (address listing and loopback route dump from the pools, hardware address "
                    "present or not, forwarding on/off, clock before / at / after the deprecation deadlines, listing failures). Each "
                    "interface is prepared with its own hardware address, its RA is built five times and compared with "
                    "BuildRA(elaboration, system state) in TLC; the configuration is compared before and after. non-trivial = "
                    "documents with at least one option stanza (distinct document x system state)",
                    ["the system state is injected through the plugins' exported function fields and LLA.Prepare (as the repository's "
                     "tests do); Prepare of the wildcard plugins (netlink) is not run",
                     "the elaborated interface fed to BuildRA is the one recorded from the real parser; C02 checks it against Elab(doc)",
                     "address text of wildcard-derived options is compared through its numeric groups"])


def c03(pid, tier, replay):
    return ra_check(pid, tier, replay, lambda c: "c03" in c, True,
                    "documents = the C01 documents plus the whole C02 boundary stream (negative, sub-second, 2^31-1 s, 2^32-1 s and "
                    "larger, infinite duration strings in every duration key; the pref64 prefix pool x five max_interval values); "
                    "for every document the REAL parser accepts, every interface's RA is encoded with ndp.MarshalMessage and decoded "
                    "again; TLC checks Encodable(ra) and decoded = OnWire(ra). non-trivial = documents with at least one option stanza",
                    ["the byte-level codec (mdlayher/ndp) is exercised, not modelled: what the specification decides is the gate "
                     "(validator ranges versus field widths) and truncation to each field's unit",
                     "DNS names are well-formed and option element counts small (the property's own quantifier)",
                     "route prefixes use byte-aligned lengths (the pinned ndp decoder drops a trailing partial byte of a route prefix)"])


# ------------------------------------------------------------------ C17 ----
OBS_PKGS = {"internal/corerad": ["common/vf_util.go", "common/vf_ra.go", "corerad/vf_world.go", "corerad/vf_adv.go",
                                 "corerad/vf_mdelay.go", "corerad/vf_verify.go", "corerad/vf_server.go", "corerad/vf_observe.go"],
            "internal/system": ["system/vf_export.go"]}


def c17(pid, tier, replay):
    t0 = time.time()
    thorough = tier == "thorough"
    tmp = vf.mktmp("vf-C17-")
    rng = random.Random(vf.seed() * 4177 + 17)
    if replay:
        vecs = json.load(open(replay))["vectors"]
    else:
        base = ra_docs(tier, rng)
        vecs = []
        dbg = [("", False, False), ("127.0.0.1:9430", True, False), ("127.0.0.1:9430", False, True), ("[::1]:9430", True, True),
               ("", True, True)]
        for n, b in enumerate(base):
            d = copy.deepcopy(b["doc"])
            # re-render with a debug table variant (the abstract doc is the stripped one: rebuild text through cfgdoc is not
            # possible from it, so append the debug table to the rendered text)
            ad, pr, pp = dbg[n % len(dbg)]
            toml = b["toml"]
            if ad != "" or pr or pp:
                toml += "[debug]\n" + ("address = \"%s\"\n" % ad if ad else "") + ("prometheus = true\n" if pr else "") + ("pprof = true\n" if pp else "")
            d["debug"] = {"addr": "ok" if ad else "empty", "prometheus": pr, "pprof": pp}
            sys_ = dict(b["sys"])
            sys_["auto"] = n % 3 != 0
            for lc in ("up", "never"):
                vecs.append({"kind": "obs", "id": "c17-%05d-%s" % (n, lc), "toml": toml, "doc": d, "sys": sys_, "lifecycle": lc,
                             "fwderr": (n % 17 == 5), "autoerr": (n % 19 == 7)})
        # the minimal default configuration of `corerad -init`, before any interface is up (D11)
        minimal = C.document([C.table(name="eth0", prefixes=[C.prefix()]), C.table(name="eth1", monitor=True, advertise=False)],
                             debug_addr="127.0.0.1:9430", prometheus=True)
        for lc in ("never", "up"):
            vecs.append({"kind": "obs", "id": "c17-minimal-" + lc, "toml": C.render(minimal), "doc": C.strip(minimal),
                         "sys": dict(sys_states(random.Random(3), 1)[0], auto=True, addrfail=False), "lifecycle": lc, "fwderr": False})
        # two stanzas that produce the same label set (known finding D12)
        dup = C.document([C.table(rdnss_=[C.rdnss(["2001:db8::53"]), C.rdnss(["2001:db8::53"], K("val", 600000))])],
                         debug_addr="127.0.0.1:9430", prometheus=True)
        vecs.append({"kind": "obs", "id": "c17-dup-rdnss", "toml": C.render(dup), "doc": C.strip(dup),
                     "sys": dict(sys_states(random.Random(4), 1)[0], auto=True), "lifecycle": "up", "fwderr": False})
    crashed = []
    outs = []
    todo = list(vecs)
    for attempt in range(6):
        if not todo:
            break
        tag = "C17r%d" % attempt
        try:
            outs += checks_vec.run_vectors(tmp, todo, OBS_PKGS, "internal/corerad", "^TestVF_Observe$", tag)
            todo = []
        except vf.ProductCrash as c:
            # a collector goroutine killed the process: find the vectors in progress in the partial outputs
            import glob
            done, inprog = set(), set()
            for f in glob.glob(os.path.join(tmp, tag + "-out-*.ndjson")):
                last = None
                for line in open(f, errors="replace"):
                    try:
                        e = json.loads(line)
                    except ValueError:
                        break
                    if e.get("ev") == "reset":
                        last = e["id"]
                    elif e.get("ev") == "obs":
                        done.add(e["id"])
                if last and last not in done:
                    inprog.add(last)
                outs.append(f)
            msg = [l for l in c.out.splitlines() if l.startswith("panic:") or l.startswith("fatal error:") or l.startswith("VF-HANG")][:1]
            print("NOTE the code under test crashed or blocked the harness process: %s" % (msg or ["crash"])[0][:200])
            if not inprog:
                break
            crashed += sorted(inprog)
            todo = [v for v in todo if v["id"] not in done and v["id"] not in inprog]
    rows = []
    for f in outs:
        for line in open(f, errors="replace"):
            try:
                e = json.loads(line)
            except ValueError:
                break
            if e.get("ev") == "obs":
                rows.append(e)
    tmpf = os.path.join(tmp, "C17-obs.ndjson")
    vf.write_ndjson(tmpf, rows)
    viols, _ = checks_vec.validate_vectors(tmp, [tmpf], module="ObsTrace", lines_per_batch=300)
    by_id = {v["id"]: v for v in vecs}
    kf = [f for f in vf.known_findings().get("findings", []) if f.get("property") == pid]
    rc, shown, known = 0, 0, {}
    for cid in crashed:
        path = vf.save_replay(pid, cid, {"property": pid, "clause": "c17-process-crashed-during-scrape-or-request", "vectors": [by_id.get(cid)]})
        print("VIOLATION property=C17 replay=%s clause=c17-process-crashed-during-scrape-or-request vector=%s" % (path, cid))
        rc, shown = 1, shown + 1
    for v in viols:
        if v["viol"].startswith("KF-"):
            m = [f for f in kf if f.get("clause") == v["viol"]]
            if m:
                known[m[0]["what"]] = known.get(m[0]["what"], 0) + 1
                continue
        shown += 1
        if shown <= 10:
            path = vf.save_replay(pid, v["id"], {"property": pid, "clause": v["viol"], "vectors": [by_id.get(v["id"])]})
            print("VIOLATION property=C17 replay=%s clause=%s vector=%s" % (path, v["viol"], v["id"]))
        rc = 1
    for w in sorted(known):
        print("KNOWN-FINDING: property=C17 %s" % w)
    nacc = sum(1 for r in rows if r["out"].get("accepted"))
    cov = {"states": len(rows) + 1, "transitions": len(rows) or 1, "traces_validated_against_impl": len(rows),
           "samples": [{"id": vecs[0]["id"], "toml": vecs[0]["toml"][:400], "lifecycle": vecs[0]["lifecycle"]}, rows[0]["out"]["http"] if rows else {}],
           "evaluations": len(vecs), "distinct_nontrivial": len({(v["toml"], v["lifecycle"]) for v in vecs if "[[interfaces." in v["toml"]}),
           "accepted_documents": nacc, "violating": shown, "known_finding_vectors": sum(known.values()),
           "rule": "vectors = the C01 documents (every stanza kind incl. pref64, wildcards, deprecated; names groups; multi-table) x five "
                   "debug-table variants x system states x lifecycle {never prepared, up} x forwarding-read failure, plus the minimal "
                   "default configuration before any interface is up and a duplicate-label document. Wiring as in cmd/corerad/main.go "
                   "(pedantic registry, metricslite Prometheus backend, promhttp, crhttp.Handler sharing the parsed interfaces). "
                   "TLC compares the gathered samples with the projection of BuildRA and the API JSON with its whole-second view, and "
                   "checks route gating. non-trivial = documents with at least one option stanza x lifecycle",
           "exhaustive": False}
    vf.write_evidence(pid, tier, "model_checking", cov,
                      ["lifecycle 'never' = no plugin has been prepared (no hardware address, wildcards not expandable); 're-initialising' "
                       "leaves the plugins prepared, so it coincides with 'up' for this surface",
                       "a collector panic kills the harness process; that is reported as a violation for the vector in progress",
                       "the expected RA uses Config!Elab(doc) (bound to the real parser by C02) and RA!BuildRA",
                       "interleavings of scrapes with Prepare itself (a data race on the plugin function fields) are not forced"],
                      time.time() - t0, violations=shown)
    print("C17 %s: %d vectors (%d accepted) scraped / requested on the real wiring and judged by TLC, %d violation(s), %.0fs"
          % (tier, len(rows), nacc, shown, time.time() - t0))
    return rc
