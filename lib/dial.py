"""Dialer family (C10 re-dial policy, C11 cleanup / autoconf): exhaustive TLC
run of Dialer.tla composed with the DialReq monitor, behaviours (outcome
scripts) printed by TLC and replayed into the real Dialer through a rewritten
dial(), traces validated by TLC (DialTrace)."""
import concurrent.futures, json, os, random, re, time
import vf

PKGS = {"internal/system": ["common/vf_util.go", "system/vf_dial.go", "system/vf_dialhooks_export.go",
                            "system/vf_export.go"]}
DEFAULTS = dict(MaxAttempts=3, DelayStep=1, MaxDelay=2, Depth=4, Advertise="TRUE", InitAuto="TRUE", MaxT=40)
INVS = "Req C11_AtMostOneOpen C11_NothingOpenAtReturn C11_KernelValue C10_Returns Emit"


def model(tmp, name, overrides, timeout=1800):
    c = dict(DEFAULTS)
    c.update(overrides)
    cfg = os.path.join(tmp, "MC_Dial_%s.cfg" % name)
    with open(cfg, "w") as f:
        f.write("SPECIFICATION Spec\nCONSTANTS\n")
        for k, v in c.items():
            f.write("  %s = %s\n" % (k, v))
        f.write("INVARIANTS %s\nCHECK_DEADLOCK FALSE\n" % INVS)
    r = vf.tlc("Dialer", cfg, workdir=vf.mktmp("vf-dmc-"), timeout=timeout, heap="10g")
    res = {"config": name, "constants": c, "states": r["states"], "transitions": r["generated"], "ok": r["ok"],
           "wall_s": round(r["wall_s"], 1)}
    if not r["ok"]:
        res["violation"] = r["violation"]
        res["actions"] = re.findall(r"State \d+: <(\w+)", r["out"])
        bad = re.findall(r'bad \|-> (\{[^}]*\})', r["out"])
        res["clause"] = bad[-1] if bad else ""
    seen, hs = set(), []
    for p in r["printed"]:
        k = json.dumps(p["h"], sort_keys=True)
        if k not in seen:
            seen.add(k)
            hs.append(p)
    hs.sort(key=lambda p: json.dumps(p["h"], sort_keys=True))
    return res, hs


def run(tmp, scenarios, tag, timeout=1800):
    rew = vf.rewrite_dial(tmp)
    if rew is None:
        raise vf.Infra("dial() no longer has the shape the rewrite expects (lookupInterface/checkInterface/dialNDP "
                       "once each); the C10/C11 dialer driver cannot be bound")
    nshards = min(vf.NCPU, max(1, len(scenarios) // 400))
    shards = [scenarios[i::nshards] for i in range(nshards)]

    def one(i):
        inp = os.path.join(tmp, "%s-in-%d.ndjson" % (tag, i))
        outp = os.path.join(tmp, "%s-out-%d.ndjson" % (tag, i))
        vf.write_ndjson(inp, shards[i])
        vf.go_test(PKGS, "internal/system", "^TestVF_Dial$", env={"VF_IN": inp, "VF_OUT": outp}, timeout=timeout,
                   tmp=vf.mktmp("vf-go-"), replace={"internal/system/dialer.go": rew})
        return outp
    outs = [one(0)]
    if nshards > 1:
        with concurrent.futures.ThreadPoolExecutor(max_workers=nshards) as ex:
            outs += list(ex.map(one, range(1, nshards)))
    return outs


KEEP = {"reset": ("id", "adv", "initauto"), "dial": ("res", "k"), "fn": ("k", "res"), "done": ("k",), "sock": ("s",),
        "close": ("s",), "auto_get": ("val", "res"), "auto_set": ("phase", "val", "res"), "cancel": (),
        "advance": ("to",), "ret": ("res",), "leak": (), "hang": (), "panic": ()}


def compact(events):
    out = []
    for e in events:
        if e["ev"] in KEEP:
            r = {"ev": e["ev"], "t": e.get("t", 0) if e["ev"] not in ("leak", "panic") else 0}
            for k in KEEP[e["ev"]]:
                r[k] = e[k]
            out.append(r)
    return out


def validate(tmp, outs, tag, lines_per_batch=80000):
    flat = []
    for f in outs:
        flat += compact(vf.read_ndjson(f))
    ntr = sum(1 for e in flat if e["ev"] == "reset")
    batches, cur = [], []
    for e in flat:
        if e["ev"] == "reset" and len(cur) >= lines_per_batch:
            batches.append(cur)
            cur = []
        cur.append(e)
    if cur:
        batches.append(cur)
    cfg = os.path.join(tmp, "DialTrace_%s.cfg" % tag)
    with open(cfg, "w") as f:
        f.write("SPECIFICATION TSpec\nCONSTANTS\n  MaxAttempts = 50\n  DelayStep = 250\n  MaxDelay = 3000\n"
                "CHECK_DEADLOCK FALSE\nPOSTCONDITION Consumed\n")

    def one(b):
        wd = vf.mktmp("vf-dtv-")
        vf.write_ndjson(os.path.join(wd, "trace.ndjson"), b)
        r = vf.tlc("DialTrace", cfg, workdir=wd, workers=1, timeout=1200, heap="3g")
        if not r["ok"] or r["states"] != len(b) + 1:
            raise vf.Infra("dial trace validation consumed %d of %d lines (%s)" % (r["states"] - 1, len(b), r["violation"]))
        return r["printed"]
    viols = []
    with concurrent.futures.ThreadPoolExecutor(max_workers=min(vf.NCPU, 12)) as ex:
        for pr in ex.map(one, batches):
            viols += pr
    sample = []
    for e in flat:
        if e["ev"] == "reset" and sample:
            break
        sample.append(e)
    return viols, ntr, len(flat), [sample[:40]]
