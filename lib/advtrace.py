"""Compaction of advertiser-family event logs into the vocabulary of
spec/AdvReq.tla. Renaming and field selection only: no state is guessed."""
import json

CNT = {
    "corerad_advertiser_router_advertisements_total": lambda lab: "m" if lab.endswith("|multicast") else "u",
    "corerad_advertiser_errors_total": lambda lab: "txerr" if lab.endswith("|transmit") else None,
    "corerad_messages_received_invalid_total": lambda lab: "inv",
    "corerad_advertiser_messages_received_total": lambda lab: "rx",
    "corerad_monitor_messages_received_total": lambda lab: "rx",
}


def compact(events, ifi="vf0", conf=False):
    """conf=True keeps the driver-input events the conformance spec binds to environment actions."""
    out = []
    for e in events:
        ev = e["ev"]
        t = e.get("t", 0)
        if e.get("ifi", ifi) != ifi and ev not in ("reset",):
            continue
        if ev == "reset":
            if "bad" in e:
                out.append({"ev": "reset", "id": e["id"], "unicast": False, "cfglife": 0, "mode": "adv", "strict": False, "quiet": False, "min": 0, "max": 0, "fwd": True, "t": 0})
                out.append({"ev": "panic", "t": 0})
                continue
            out.append({"ev": "reset", "id": e["id"], "unicast": e["unicast"], "cfglife": e["cfglife"],
                        "mode": e["mode"], "strict": e.get("min", 0) >= 150000, "quiet": bool(e.get("quiet", False)),
                        "min": e.get("min", 0), "max": e.get("max", 0), "fwd": e.get("fwd", True), "t": 0})
        elif ev == "dial":
            out.append({"ev": ev, "k": e["k"], "res": e["res"], "t": t})
        elif ev in ("done", "rcall"):
            out.append({"ev": ev, "k": e["k"], "t": t})
        elif ev == "in":
            kind, cls = e["kind"], ""
            if kind.startswith("readerr"):
                kind, cls = "readerr", kind.split(":", 1)[1] if ":" in kind else "other"
            out.append({"ev": ev, "k": e["k"], "kind": kind, "cls": cls, "src": e["src"], "hl": e["hl"], "t": t})
        elif ev == "fwd":
            out.append({"ev": ev, "val": e["val"], "ok": e["ok"], "cls": e.get("class", ""), "t": t})
        elif ev == "wcall":
            out.append({"ev": ev, "k": e["k"], "dst": e["dst"], "mc": e["mc"], "type": e["type"],
                        "life": e["life"], "body": e["body"], "t": t})
        elif ev == "wret":
            out.append({"ev": ev, "k": e["k"], "dst": e["dst"], "mc": e["mc"], "ok": e["ok"], "cls": e.get("class", ""), "t": t})
        elif ev == "cnt":
            f = CNT.get(e["name"])
            c = f(e["labels"]) if f else None
            if c and e["labels"].split("|")[0] == ifi:
                out.append({"ev": ev, "c": c, "v": int(round(float(e.get("v", 1)) * 1000)), "t": t})
        elif ev in ("scrape_call", "api_call"):
            out.append({"ev": "qcall", "t": t})
        elif ev == "scrape":
            ok = not e.get("err") and not e.get("panic")
            fwd, mis = False, False
            for smp in e.get("samples") or []:
                if smp.startswith("corerad_interface_forwarding{%s}=" % ifi):
                    fwd = smp.endswith("=1")
                if smp.startswith("corerad_advertiser_misconfiguration{%s|interface_not_forwarding}=1" % ifi):
                    mis = True
            out.append({"ev": "scrape", "ok": ok, "fwd": fwd, "misconf": mis, "t": t})
        elif ev == "api":
            ok, life = e.get("status") == 200, -1
            if ok:
                try:
                    for it in json.loads(e["body"])["interfaces"]:
                        if it["interface"] == ifi and it.get("advertisement"):
                            life = it["advertisement"]["router_lifetime_seconds"]
                except Exception:
                    ok = False
            out.append({"ev": "api", "ok": ok, "life": life, "t": t})
        elif ev == "log":
            # the interface_not_forwarding log line, recognised by what it is about rather than by its exact wording
            ln = e.get("line", "")
            if ln.startswith(ifi + ": ") and "forwarding" in ln.lower() and "failed" not in ln.lower():
                out.append({"ev": "mislog", "t": t})
        elif ev == "hook":
            out.append({"ev": ev, "life": e["life"], "body": e["body"], "t": t})
        elif ev == "cancel":
            out.append({"ev": ev, "term": e["term"], "t": t})
        elif ev in ("hold", "release") and conf:
            k = e.get("key", "")
            out.append({"ev": ev, "dst": k.split("|", 1)[1] if "|" in k else k, "gate": k.split("|", 1)[0], "t": t})
        elif ev in ("link", "hold", "release", "quiet", "hang"):
            out.append({"ev": ev, "t": t})
        elif ev == "arrive" and conf:
            kind = e["kind"]
            if kind.startswith("readerr"):
                kind = "readerrsys" if kind == "readerr:sys" else "readerr"
            out.append({"ev": "arrive", "kind": kind, "src": e["src"], "hl": e["hl"], "tag": e.get("tag", ""), "t": t})
        elif ev == "wclose" and conf:
            out.append({"ev": "wclose", "t": t})
        elif ev == "flip" and conf:
            out.append({"ev": "flip", "val": e["val"], "t": t})
        elif ev == "advance":
            out.append({"ev": ev, "to": e["to"], "t": t})
        elif ev == "ret":
            out.append({"ev": ev, "res": e["res"], "t": t})
        elif ev == "tgate" and not conf:
            out.append({"ev": ev, "held": e["held"], "t": t})
        elif ev in ("termask", "sret") and not conf:
            out.append({"ev": ev, "t": t})
        elif ev in ("leak", "panic"):
            out.append({"ev": ev, "t": 0})
        elif ev == "end":
            pass
    return out
