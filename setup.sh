#!/bin/bash
# Offline setup: parse every spec module and warm the Go build cache.
set -e
cd "$(dirname "$0")"
exec python3 lib/setup.py
