#!/bin/bash
# try_seed.sh <seed-name> <property id>... : apply a seeded change to /repo, run the quick checks, undo.
name=$1; shift
p=/verif/seeded/$name/patch.diff
cd /repo || exit 2
if ! git diff --quiet; then echo "/repo is dirty"; exit 2; fi
if ! git apply --check $p 2>/dev/null; then
  if git apply --3way --check $p 2>/dev/null; then :; else echo "SEED $name: patch does not apply to current HEAD"; exit 3; fi
fi
git apply $p || git apply --3way $p
trap 'git -C /repo checkout -- . ; git -C /repo clean -fdq' EXIT
cd /verif
for pid in "$@"; do
  out=$(./check $pid --tier ${TIER:-quick} 2>&1); rc=$?
  echo "SEED $name check $pid rc=$rc : $(echo "$out" | grep -c '^VIOLATION') violation lines; $(echo "$out" | grep -E '^VIOLATION' | head -2 | cut -c1-200)"
  echo "$out" | tail -1 | cut -c1-200
done
