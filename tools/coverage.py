#!/usr/bin/env python3
"""coverage.py [ids...]: statement coverage of the real code by the drivers of the given checks (default: all).

Runs each check's quick tier with VERIF_COVER set (the go test runs then write Go cover profiles for ./...),
merges the profiles and prints, per production file, covered / total statements and the uncovered blocks.
Writes /verif/coverage/impl_coverage.json. Not a verdict: it shows which code no driver reaches."""
import collections, glob, json, os, re, subprocess, sys, tempfile

VERIF = os.path.dirname(os.path.dirname(os.path.abspath(__file__)))
ids = sys.argv[1:] or ["C%02d" % i for i in range(1, 21)]
covdir = tempfile.mkdtemp(prefix="vf-cover-", dir=os.environ.get("VERIF_TMP", "/var/tmp"))
per_check = {}
blocks = collections.defaultdict(lambda: [0, 0])      # (file, span) -> [nstmt, hits]
for pid in ids:
    d = os.path.join(covdir, pid)
    env = dict(os.environ, VERIF_COVER=d, VERIF_NO_MC="1", VERIF_NO_CONFORMANCE="1", VERIF_EVIDENCE_DIR=os.path.join(covdir, "ev"))
    r = subprocess.run([os.path.join(VERIF, "check"), pid, "--tier", "quick"], env=env, stdout=subprocess.PIPE, stderr=subprocess.STDOUT, text=True)
    mine = collections.defaultdict(lambda: [0, 0])
    for f in glob.glob(os.path.join(d, "*.out")):
        for line in open(f):
            m = re.match(r"^(\S+):(\d+\.\d+,\d+\.\d+) (\d+) (\d+)$", line.strip())
            if not m:
                continue
            key = (m.group(1), m.group(2))
            for tbl in (blocks, mine):
                tbl[key][0] = int(m.group(3))
                tbl[key][1] += int(m.group(4))
    per_check[pid] = mine
    print("%s rc=%d profiles=%d" % (pid, r.returncode, len(glob.glob(os.path.join(d, "*.out")))), file=sys.stderr)


def summarise(tbl):
    files = collections.defaultdict(lambda: [0, 0, []])
    for (f, span), (n, h) in tbl.items():
        if f.endswith("_test.go") or "/vf_" in f or "zz_" in f:
            continue
        short = f.split("github.com/mdlayher/corerad/")[-1]
        files[short][1] += n
        if h:
            files[short][0] += n
        else:
            files[short][2].append(span)
    return files


tot = summarise(blocks)
out = {"checks": ids, "files": {}}
for f in sorted(tot):
    c, n, unc = tot[f]
    unc.sort(key=lambda s: [float(x) for x in s.replace(",", ".").split(".")][:1])
    out["files"][f] = {"covered_statements": c, "statements": n, "uncovered_blocks": unc,
                       "by_check": {p: summarise(per_check[p])[f][0] for p in ids if summarise(per_check[p]).get(f, [0])[0]}}
    print("%-45s %4d/%4d  %5.1f%%" % (f, c, n, 100.0 * c / max(n, 1)))
json.dump(out, open(os.path.join(VERIF, "coverage", "impl_coverage.json"), "w"), indent=1, sort_keys=True)
subprocess.run(["rm", "-rf", covdir])
