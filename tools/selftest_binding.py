#!/usr/bin/env python3
"""Binding self-test: genuine traces of the unchanged advertiser are explained by
Advertiser.tla (AdvConf) and accepted by AdvReq; the same traces with ONE
recorded field corrupted, or ONE event dropped, must be rejected."""
import copy, json, os, sys
sys.path.insert(0, os.path.join(os.path.dirname(os.path.abspath(__file__)), "..", "lib"))
import vf, adv, advtrace

base = {"min": 200000, "max": 600000, "life": 1800}
scen = [{"id": "bind-%d" % i, "cfg": dict(base, offset=37 * i),
         "steps": [{"op": "adv", "to": 1000}, {"op": "rs", "src": "unspec"}, {"op": "adv", "to": 4500}, {"op": "rs", "src": "fe80::a1"},
                   {"op": "adv", "to": 9000}, {"op": "cancel", "term": True}]} for i in range(4)]
tmp = vf.mktmp("vf-bind-")
outs = adv.run_scenarios(tmp, scen, "bind")
n, dev, st = adv.conformance(tmp, outs, "bind")
assert n == 4 and not dev, ("genuine traces must be explained", n, dev)
rows = vf.read_ndjson(outs[0])


def mutate(kind):
    ev = copy.deepcopy(rows)
    done = False
    for i, e in enumerate(ev):
        if done:
            break
        if kind == "time" and e["ev"] == "wcall" and e["dst"] == "fe80::a1":
            e["t"] += 7; done = True
        elif kind == "dst" and e["ev"] == "wcall" and e["dst"] == "fe80::a1":
            e["dst"] = "fe80::a9"; done = True
        elif kind == "dropfwd" and e["ev"] == "fwd" and e["t"] > 0:
            del ev[i]; done = True
        elif kind == "life" and e["ev"] == "wcall" and e["t"] == 3000:
            e["life"] = 0; done = True
        elif kind == "dropwret" and e["ev"] == "wret" and e["t"] == 3000:
            del ev[i]; done = True
    assert done, kind
    p = os.path.join(tmp, "mut-%s.ndjson" % kind)
    vf.write_ndjson(p, ev)
    return p


bad = 0
for kind in ("time", "dst", "dropfwd", "life", "dropwret"):
    p = mutate(kind)
    n, dev, _ = adv.conformance(tmp, [p], "m-" + kind)
    viols, _, _, _ = adv.validate(tmp, [p], "m-" + kind)
    ok = "bind-0" in dev
    print("corruption %-9s conformance: %s   requirement monitor: %s" % (kind, "REJECTED" if ok else "accepted (BAD)",
                                                                         sorted({v["viol"] for v in viols}) or "silent"))
    bad += 0 if ok else 1
print("binding self-test", "OK" if not bad else "FAILED")
sys.exit(1 if bad else 0)
