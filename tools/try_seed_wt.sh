#!/bin/bash
# try_seed_wt.sh <seed-name> <property id>... : like try_seed.sh but in a scratch worktree of /repo HEAD
# (VERIF_REPO points the checks at it), so /repo itself stays untouched and other checks can run meanwhile.
name=$1; shift
p=/verif/seeded/$name/patch.diff
wt=/var/tmp/vfseed-$name-$$
git -C /repo worktree add -q --detach $wt HEAD || exit 2
trap 'git -C /repo worktree remove --force $wt; rm -rf $wt' EXIT
(cd $wt && (git apply $p || git apply --3way $p)) || { echo "SEED $name: patch does not apply to current HEAD"; exit 3; }
cd /verif
for pid in "$@"; do
  out=$(VERIF_REPO=$wt VERIF_EVIDENCE_DIR=/var/tmp/vfseed-ev ./check $pid --tier ${TIER:-quick} 2>&1); rc=$?
  echo "SEED $name check $pid rc=$rc : $(echo "$out" | grep -c '^VIOLATION') violation lines; $(echo "$out" | grep -E '^VIOLATION' | head -2 | cut -c1-200)"
  echo "$out" | tail -1 | cut -c1-200
done
