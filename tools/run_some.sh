#!/bin/bash
# run_some.sh <tier> <id>...: the given checks once, with timing.
tier=$1; shift
cd "$(dirname "$0")/.."
for p in "$@"; do
  s=$(date +%s); out=$(./check $p --tier $tier 2>&1); rc=$?; e=$(date +%s)
  echo "$p rc=$rc $((e-s))s viol=$(echo "$out" | grep -c '^VIOLATION') kf=$(echo "$out" | grep -c '^KNOWN-FINDING') :: $(echo "$out" | tail -1 | cut -c1-150)"
done
