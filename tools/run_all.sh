#!/bin/bash
# run_all.sh [tier]: every registered check once, with timing; summary at the end.
tier=${1:-quick}
cd "$(dirname "$0")/.."
for p in C01 C02 C03 C04 C05 C06 C07 C08 C09 C10 C11 C12 C13 C14 C15 C16 C17 C18 C19 C20; do
  s=$(date +%s); out=$(./check $p --tier $tier 2>&1); rc=$?; e=$(date +%s)
  echo "$p rc=$rc $((e-s))s viol=$(echo "$out" | grep -c '^VIOLATION') kf=$(echo "$out" | grep -c '^KNOWN-FINDING') :: $(echo "$out" | tail -1 | cut -c1-150)"
done
