#!/usr/bin/env python3
"""mutate.py <repo-relative .go file> [--jobs N] [--limit K] [--only-line L]

Systematic gap finder (not a check): applies small syntactic mutations to one production file in scratch worktrees of
/repo HEAD, drops the ones that do not compile, and runs the quick checks of the properties anchored in that file
against each (VERIF_REPO, scenario part only). Prints one line per mutant: KILLED <check> / SURVIVED, and writes
/verif/coverage/mutants-<file>.json. A surviving mutant is either equivalent / outside every property, or a gap to
look at by hand; nothing here is a verdict about /repo."""
import concurrent.futures, json, os, re, subprocess, sys, tempfile, shutil

VERIF = os.path.dirname(os.path.dirname(os.path.abspath(__file__)))
REPO = os.environ.get("VERIF_REPO", "/repo")
CHECKS = {
    "internal/corerad/advertise.go": ["C07", "C06", "C08", "C04", "C09", "C10", "C05", "C12"],
    "internal/corerad/listener.go": ["C09", "C10", "C08"],
    "internal/corerad/monitor.go": ["C18", "C09", "C10"],
    "internal/corerad/server.go": ["C20", "C08", "C10"],
    "internal/corerad/verify.go": ["C12"],
    "internal/corerad/metrics.go": ["C17", "C07", "C04"],
    "internal/crhttp/handler.go": ["C17"],
    "internal/crhttp/ra.go": ["C17"],
    "internal/system/dialer.go": ["C11", "C10"],
    "internal/netstate/watcher.go": ["C19"],
    "internal/netstate/watcher_linux.go": ["C19"],
    "internal/plugin/plugin.go": ["C01", "C13", "C14", "C15", "C16", "C03", "C17"],
    "internal/config/config.go": ["C01", "C02", "C03", "C04"],
    "internal/config/interface.go": ["C02", "C01", "C03", "C05"],
    "internal/config/plugin.go": ["C02", "C01", "C03"],
}
OPS = [(r" == ", " != "), (r" != ", " == "), (r" < ", " <= "), (r" <= ", " < "), (r" > ", " >= "), (r" >= ", " > "),
       (r" && ", " || "), (r" \|\| ", " && "), (r"\btrue\b", "false"), (r"\bfalse\b", "true"),
       (r"\+ 1\b", "+ 2"), (r"- 1\b", "- 2"), (r"\bi--\b", "i++"), (r"\bcontinue\b", "break"),
       (r"return err\b", "return nil"), (r"\b0\b", "1"), (r"\b1\b", "0"), (r"\b3 \* ", "2 * "), (r"\b5\b", "4"), (r"\b50\b", "49"),
       (r"\b250 \* ", "251 * "), (r"\b16 \* ", "15 * "), (r"!(\w)", r"\1"), (r"\bdefer ", ""), (r"(\w+)\.Lock\(\)", r"\1.TryLock()")]


# second operator set (--set 2): delete a call statement, force a condition
OPS2 = [(r"^(\s*)[\w\.\[\]]+\([^{}]*\)\s*$", r"\1"), (r"^(\s*)(?:} else )?if (?:[^;{]*; )?(.+) \{\s*$", "FORCE-TRUE"), (r"^(\s*)(?:} else )?if (?:[^;{]*; )?(.+) \{\s*$", "FORCE-FALSE")]


def mutants2(path):
    lines = open(path).read().split("\n")
    out = []
    for n, ln in enumerate(lines):
        st = ln.strip()
        if not st or st.startswith("//") or st.startswith("defer") and False:
            continue
        if re.match(r"^\s*[\w\.\[\]]+\([^{}]*\)\s*$", ln) and not st.startswith(("return", "panic", "go ", "defer ")):
            out.append((n + 1, "delete-call", st[:90], ""))
        m = re.match(r"^(\s*)((?:} else )?if )((?:[^;{]*; )?)(.+) \{\s*$", ln)
        if m and "err != nil" not in ln and "err == nil" not in ln:
            for val in ("true", "false"):
                pre = m.group(3)
                cond = "(%s) || true" % m.group(4) if val == "true" else "(%s) && false" % m.group(4)
                out.append((n + 1, "force-" + val, st[:90], "%s%s%s%s {" % (m.group(1), m.group(2), pre, cond)))
    return out


def mutants(path):
    lines = open(path).read().split("\n")
    out = []
    in_block = False
    for n, ln in enumerate(lines):
        st = ln.strip()
        if st.startswith("/*"):
            in_block = True
        if in_block:
            if "*/" in st:
                in_block = False
            continue
        if not st or st.startswith("//") or st.startswith("import") or st.startswith("package") or st.startswith('"'):
            continue
        code = ln.split("//")[0] if '"' not in ln else ln
        for pat, rep in OPS:
            for m in re.finditer(pat, code):
                # skip matches inside string literals (rough: odd number of quotes before the match)
                if code[:m.start()].count('"') % 2 == 1 or code[:m.start()].count("`") % 2 == 1:
                    continue
                new = code[:m.start()] + m.expand(rep) + code[m.end():]
                if new != code:
                    out.append((n + 1, pat, ln.strip()[:90], new + ln[len(code):]))
    return out


def run_one(args):
    idx, rel, (line, pat, text, newline), checks = args
    wt = tempfile.mkdtemp(prefix="vfmut-", dir="/var/tmp")
    try:
        subprocess.run(["git", "-C", REPO, "worktree", "add", "-q", "--detach", wt, "HEAD"], check=True, capture_output=True)
        p = os.path.join(wt, rel)
        lines = open(p).read().split("\n")
        lines[line - 1] = newline
        open(p, "w").write("\n".join(lines))
        env = dict(os.environ, GOFLAGS="-mod=mod", GOPROXY="off", GOSUMDB="off", GOTOOLCHAIN="local")
        b = subprocess.run(["go", "build", "./..."], cwd=wt, env=env, capture_output=True, text=True)
        if b.returncode != 0:
            return {"i": idx, "line": line, "op": pat, "text": text, "status": "nocompile"}
        for c in checks:
            e = dict(os.environ, VERIF_REPO=wt, VERIF_NO_MC="1", VERIF_NO_CONFORMANCE="1", VERIF_EVIDENCE_DIR="/var/tmp/vfmut-ev")
            r = subprocess.run([os.path.join(VERIF, "check"), c, "--tier", "quick"], env=e, capture_output=True, text=True)
            if r.returncode == 1:
                cl = re.findall(r"clause=(\S+)", r.stdout)
                return {"i": idx, "line": line, "op": pat, "text": text, "status": "killed", "by": c, "clause": cl[0] if cl else ""}
            if r.returncode == 2:
                return {"i": idx, "line": line, "op": pat, "text": text, "status": "infra", "by": c,
                        "msg": (r.stdout + r.stderr)[-300:].replace("\n", " | ")}
        return {"i": idx, "line": line, "op": pat, "text": text, "status": "SURVIVED"}
    finally:
        subprocess.run(["git", "-C", REPO, "worktree", "remove", "--force", wt], capture_output=True)
        shutil.rmtree(wt, ignore_errors=True)


def main():
    rel = sys.argv[1]
    jobs = int(sys.argv[sys.argv.index("--jobs") + 1]) if "--jobs" in sys.argv else 4
    limit = int(sys.argv[sys.argv.index("--limit") + 1]) if "--limit" in sys.argv else None
    only = int(sys.argv[sys.argv.index("--only-line") + 1]) if "--only-line" in sys.argv else None
    ms = (mutants2 if "--set" in sys.argv and sys.argv[sys.argv.index("--set") + 1] == "2" else mutants)(os.path.join(REPO, rel))
    if only:
        ms = [m for m in ms if m[0] == only]
    if limit:
        step = max(1, len(ms) // limit)
        ms = ms[::step][:limit]
    checks = CHECKS[rel]
    res = []
    with concurrent.futures.ThreadPoolExecutor(max_workers=jobs) as ex:
        for r in ex.map(run_one, [(i, rel, m, checks) for i, m in enumerate(ms)]):
            res.append(r)
            print("%-9s line %4d %-14s %s %s" % (r["status"], r["line"], r["op"], r.get("by", ""), r["text"]), flush=True)
    os.makedirs(os.path.join(VERIF, "coverage"), exist_ok=True)
    suffix = "-set2" if "--set" in sys.argv else ""
    json.dump(res, open(os.path.join(VERIF, "coverage", "mutants-" + rel.replace("/", "_") + suffix + ".json"), "w"), indent=1)
    n = {k: sum(1 for r in res if r["status"] == k) for k in ("killed", "SURVIVED", "nocompile", "infra")}
    print("SUMMARY %s: %s" % (rel, n))


if __name__ == "__main__":
    main()
