#!/bin/bash
# confirm_seed.sh <id> <srcdir>: confirm a seeded change in a scratch worktree of /repo HEAD:
# applies, builds, baseline tests pass, demo fails with / passes without. Then stores it under /verif/seeded/<name>/.
set -u
id=$1; src=$2; name=${3:-$id}
wt=/tmp/vfconfirm-$$
export GOPROXY=off GOFLAGS=
git -C /repo worktree add -q --detach $wt HEAD || exit 2
trap 'git -C /repo worktree remove --force $wt; rm -rf $wt' EXIT
cd $wt
pkgdir=$(python3 -c "import json;print(json.load(open('$src/meta.json'))['demo_package_dir'])")
if ! git apply --check $src/patch.diff 2>/dev/null; then echo "PATCH-DOES-NOT-APPLY"; exit 3; fi
git apply $src/patch.diff
go build ./... || { echo BUILD-FAIL; exit 3; }
go test -vet=off -count=1 ./... 2>&1 | grep -v -E '^ok|no test files' | grep -E '^(--- FAIL|FAIL)' | grep -v -E 'TestIntegration|TestAdvertiserLinux|/real' > /tmp/vfconfirm-fail.$$
# tolerate package-level FAIL lines caused only by known flaky tests
if grep -q -- '--- FAIL' /tmp/vfconfirm-fail.$$; then echo "SUITE-FAILS-WITH-PATCH:"; cat /tmp/vfconfirm-fail.$$; rm -f /tmp/vfconfirm-fail.$$; exit 3; fi
rm -f /tmp/vfconfirm-fail.$$
cp $src/demo_test.go $pkgdir/zz_demo_test.go
runre="^($(grep -oE '^func (Test[A-Za-z0-9_]+)' $src/demo_test.go | awk '{print $2}' | paste -sd'|'))\$"
if go test -vet=off -count=1 -run "$runre" ./$pkgdir/ >/tmp/vfconfirm-with.$$ 2>&1; then echo "DEMO-PASSES-WITH-PATCH (bad)"; tail -5 /tmp/vfconfirm-with.$$; rm -f /tmp/vfconfirm-with.$$; exit 3; fi
rm -f /tmp/vfconfirm-with.$$
git apply -R $src/patch.diff
if ! go test -vet=off -count=1 -run "$runre" ./$pkgdir/ >/tmp/vfconfirm-wo.$$ 2>&1; then echo "DEMO-FAILS-WITHOUT-PATCH (bad)"; tail -15 /tmp/vfconfirm-wo.$$; rm -f /tmp/vfconfirm-wo.$$; exit 3; fi
rm -f /tmp/vfconfirm-wo.$$
mkdir -p /verif/seeded/$name
cp $src/patch.diff $src/demo_test.go $src/meta.json /verif/seeded/$name/
echo "CONFIRMED $name (base $(git -C /repo rev-parse --short HEAD))"
