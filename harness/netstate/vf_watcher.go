package netstate

// C19: scripts of Subscribe / notify / drain / end-of-watch calls (enumerated
// by TLC from spec/WatchMC.tla, or random) replayed on the real Watcher with
// the OS watch hook replaced (as the repository's own tests do), recording
// the buffered count of every subscriber after every call and what each
// drain received. A second mode runs Subscribe, notify and end concurrently.

import (
	"context"
	"errors"
	"fmt"
	"math/rand"
	"os"
	"sync"
	"testing"
	"time"

	"github.com/jsimonetti/rtnetlink"
)

var vfOper = map[Change]rtnetlink.OperationalState{
	LinkUp: rtnetlink.OperStateUp, LinkDown: rtnetlink.OperStateDown, LinkTesting: rtnetlink.OperStateTesting,
	LinkUnknown: rtnetlink.OperStateUnknown, LinkDormant: rtnetlink.OperStateDormant,
	LinkNotPresent: rtnetlink.OperStateNotPresent, LinkLowerLayerDown: rtnetlink.OperStateLowerLayerDown,
}

type vfNotifyCmd struct {
	cs   changeSet
	msgs []rtnetlink.Message
	done chan struct{}
}

func vfBatch(list []any) (changeSet, []rtnetlink.Message, []any) {
	cs := make(changeSet)
	var msgs []rtnetlink.Message
	var echo []any
	for _, x := range list {
		m := x.(map[string]any)
		ifi := vfStr(m, "iface", "")
		var chs []any
		for _, c := range vfList(m, "changes") {
			n := 0
			switch v := c.(type) {
			case interface{ Int64() (int64, error) }:
				i, _ := v.Int64()
				n = int(i)
			case float64:
				n = int(v)
			}
			cs[ifi] = append(cs[ifi], Change(n))
			// messages that carry no link-state change are skipped one by one, whatever follows them in the batch
			switch len(cs[ifi]) % 4 {
			case 0:
				msgs = append(msgs, &rtnetlink.LinkMessage{})
			case 1:
				msgs = append(msgs, &rtnetlink.LinkMessage{Attributes: &rtnetlink.LinkAttributes{Name: ifi, OperationalState: rtnetlink.OperationalState(99)}})
			case 2:
				msgs = append(msgs, &rtnetlink.AddressMessage{})
			}
			msgs = append(msgs, &rtnetlink.LinkMessage{Attributes: &rtnetlink.LinkAttributes{Name: ifi, OperationalState: vfOper[Change(n)]}})
			chs = append(chs, n)
		}
		echo = append(echo, map[string]any{"iface": ifi, "changes": chs})
	}
	return cs, msgs, echo
}

func TestVF_Watcher(t *testing.T) {
	in, out := vfEnv("VF_IN", ""), vfEnv("VF_OUT", "")
	if in == "" || out == "" {
		t.Skip("VF_IN / VF_OUT not set")
	}
	rec := vfNewRec(out)
	defer rec.close()
	for _, sc := range vfReadLines(in) {
		rec.raw(map[string]any{"ev": "reset", "id": vfStr(sc, "id", "")})
		func() {
			defer func() {
				if r := recover(); r != nil {
					rec.raw(map[string]any{"ev": "panic", "msg": fmt.Sprint(r)})
				}
			}()
			if vfBool(sc, "conc", false) {
				vfWatcherConc(rec, sc)
			} else {
				vfWatcherSeq(rec, sc)
			}
		}()
	}
}

func vfWatcherSeq(rec *vfRec, sc map[string]any) {
	w := NewWatcher()
	cmdC := make(chan vfNotifyCmd)
	var perr any
	w.watch = func(_ context.Context, notify func(changeSet)) error {
		defer func() { perr = recover() }()
		for c := range cmdC {
			if c.msgs != nil {
				notify(process(c.msgs))
			} else {
				notify(c.cs)
			}
			close(c.done)
		}
		// watching ends: cleanly, or because the OS-specific loop failed (the subscribers are owed their close either way)
		switch vfStr(sc, "enderr", "") {
		case "other":
			return errors.New("vf: netlink receive failed")
		case "notexist":
			return fmt.Errorf("vf: %w", os.ErrNotExist)
		}
		return nil
	}
	watchDone := make(chan struct{})
	// The watch context: cancelling it asks the OS-specific loop to stop, it does not end watching by itself (the stub
	// loop ignores it, as a loop blocked in a netlink receive does for a while): subscribers stay open and served
	// until the loop has really returned.
	wctx, wcancel := context.WithCancel(context.Background())
	defer wcancel()
	go func() {
		defer close(watchDone)
		defer func() {
			if r := recover(); r != nil {
				perr = r
			}
		}()
		_ = w.Watch(wctx)
	}()
	var chans []<-chan Change
	ended := false
	lens := func() {
		for i, ch := range chans {
			rec.raw(map[string]any{"ev": "len", "i": i + 1, "n": len(ch)})
		}
	}
	for n, raw := range vfList(sc, "h") {
		op := raw.(map[string]any)
		switch vfStr(op, "op", "") {
		case "sub":
			chans = append(chans, w.Subscribe(vfStr(op, "iface", ""), Change(vfInt(op, "mask", 0))))
			rec.raw(map[string]any{"ev": "sub", "iface": vfStr(op, "iface", ""), "mask": vfInt(op, "mask", 0)})
		case "notify":
			cs, msgs, echo := vfBatch(vfList(op, "batch"))
			rec.raw(map[string]any{"ev": "notify", "batch": echo})
			if ended {
				continue
			}
			c := vfNotifyCmd{cs: cs, done: make(chan struct{})}
			if n%2 == 1 {
				c.msgs = msgs // through process(): rtnetlink link messages -> changeSet
			}
			blocked := false
			select {
			case cmdC <- c:
				select {
				case <-c.done:
				case <-time.After(3 * time.Second):
					blocked = true
				}
			case <-time.After(3 * time.Second):
				blocked = true
			}
			rec.raw(map[string]any{"ev": "notifyret", "blocked": blocked})
			if blocked {
				return
			}
		case "drain":
			i := vfInt(op, "i", 1) - 1
			ch := chans[i]
			got := []any{}
			closed := false
			for k := len(ch); k > 0; k-- {
				got = append(got, int(<-ch))
			}
			select {
			case v, ok := <-ch:
				if !ok {
					closed = true
				} else {
					got = append(got, int(v))
				}
			default:
			}
			rec.raw(map[string]any{"ev": "drain", "i": i + 1, "got": got, "closed": closed})
		case "cancelctx":
			wcancel()
			for i := 0; i < 200 && !vfAllBlocked(); i++ {
				time.Sleep(100 * time.Microsecond)
			}
			rec.raw(map[string]any{"ev": "cancelctx"})
		case "end":
			if !ended {
				ended = true
				close(cmdC)
				<-watchDone
				if perr != nil {
					rec.raw(map[string]any{"ev": "panic", "msg": fmt.Sprint(perr)})
				}
				rec.raw(map[string]any{"ev": "end"})
			}
		}
		lens()
	}
	if !ended {
		close(cmdC)
		<-watchDone
		if perr != nil {
			rec.raw(map[string]any{"ev": "panic", "msg": fmt.Sprint(perr)})
		}
		rec.raw(map[string]any{"ev": "end"})
	}
	// final drain of everybody: remaining notifications, then closed-ness
	for i, ch := range chans {
		got := []any{}
		closed := false
		for k := len(ch); k > 0; k-- {
			got = append(got, int(<-ch))
		}
		select {
		case _, ok := <-ch:
			closed = !ok
		default:
		}
		rec.raw(map[string]any{"ev": "drain", "i": i + 1, "got": got, "closed": closed})
	}
}

// vfWatcherConc: subscribers subscribe and drain concurrently with a stream of
// notifications and the end of watching.
func vfWatcherConc(rec *vfRec, sc map[string]any) {
	rng := rand.New(rand.NewSource(int64(vfInt(sc, "seed", 1))))
	w := NewWatcher()
	ifaces := []string{"a", "b"}
	nbatch := vfInt(sc, "batches", 50)
	sent := map[string][]any{"a": {}, "b": {}}
	var batches []changeSet
	for i := 0; i < nbatch; i++ {
		cs := make(changeSet)
		ifi := ifaces[rng.Intn(2)]
		for k := rng.Intn(3) + 1; k > 0; k-- {
			c := Change(1 << uint(rng.Intn(7)))
			cs[ifi] = append(cs[ifi], c)
			sent[ifi] = append(sent[ifi], int(c))
		}
		batches = append(batches, cs)
	}
	start := make(chan struct{})
	w.watch = func(_ context.Context, notify func(changeSet)) error {
		<-start
		for _, cs := range batches {
			notify(cs)
		}
		return nil
	}
	type subRes struct {
		iface  string
		mask   int
		got    []any
		closed bool
	}
	nsub := vfInt(sc, "subs", 6)
	res := make([]subRes, nsub)
	var wg sync.WaitGroup
	early := make(chan struct{}, nsub)
	for i := 0; i < nsub; i++ {
		i := i
		ifi := ifaces[rng.Intn(2)]
		mask := rng.Intn(127) + 1
		res[i] = subRes{iface: ifi, mask: mask, got: []any{}}
		wg.Add(1)
		go func() {
			defer wg.Done()
			ch := w.Subscribe(ifi, Change(mask))
			early <- struct{}{}
			deadline := time.After(5 * time.Second)
			for {
				select {
				case c, ok := <-ch:
					if !ok {
						res[i].closed = true
						return
					}
					res[i].got = append(res[i].got, int(c))
				case <-deadline:
					return
				}
			}
		}()
	}
	// Half of the runs wait for every subscription before notifications start
	// (then closing is guaranteed); the other half race Subscribe with notify.
	waitAll := vfBool(sc, "waitall", true)
	if waitAll {
		for i := 0; i < nsub; i++ {
			<-early
		}
	}
	close(start)
	var perr any
	func() {
		defer func() { perr = recover() }()
		_ = w.Watch(context.Background())
	}()
	wg.Wait()
	if perr != nil {
		rec.raw(map[string]any{"ev": "panic", "msg": fmt.Sprint(perr)})
	}
	var subs []any
	for _, r := range res {
		subs = append(subs, map[string]any{"iface": r.iface, "mask": r.mask, "got": r.got, "closed": r.closed})
	}
	rec.raw(map[string]any{"ev": "conc", "subs": subs, "sent": map[string]any{"a": sent["a"], "b": sent["b"]}, "waitall": waitAll})
}
