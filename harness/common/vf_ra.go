package PKG

// Abstract rendering of router advertisements and durations, shared by every
// harness so that the TLA+ side sees one vocabulary.

import (
	"crypto/sha256"
	"encoding/hex"
	"encoding/json"
	"fmt"
	"net/netip"
	"time"

	"github.com/mdlayher/ndp"
)

// vfDur renders a duration as the Dur record of spec/Durations.tla:
// k = "fin" (value = s seconds + ms milliseconds + ns nanoseconds, floor
// semantics so that ms and ns are never negative), "inf" (exactly 2^32-1 s) or
// "over" (above it).
func vfDur(d time.Duration) map[string]any {
	switch {
	case d == ndp.Infinity:
		return map[string]any{"k": "inf", "s": 0, "ms": 0, "ns": 0}
	case d > ndp.Infinity:
		return map[string]any{"k": "over", "s": 0, "ms": 0, "ns": 0}
	}
	s := int64(d / time.Second)
	rem := int64(d % time.Second)
	if rem < 0 {
		s--
		rem += int64(time.Second)
	}
	return map[string]any{"k": "fin", "s": s, "ms": rem / 1e6, "ns": rem % 1e6}
}

func vfPref(p ndp.Preference) string {
	switch p {
	case ndp.Low:
		return "low"
	case ndp.Medium:
		return "medium"
	case ndp.High:
		return "high"
	}
	return fmt.Sprintf("pref(%d)", int(p))
}

func vfCIDR(a netip.Addr, l uint8) string { return fmt.Sprintf("%s/%d", a, l) }

// vfAbsOpt renders one option.
func vfAbsOpt(o ndp.Option) map[string]any {
	switch o := o.(type) {
	case *ndp.PrefixInformation:
		return map[string]any{"k": "prefix", "pfx": vfCIDR(o.Prefix, o.PrefixLength), "onlink": o.OnLink,
			"auto": o.AutonomousAddressConfiguration, "valid": vfDur(o.ValidLifetime), "pref": vfDur(o.PreferredLifetime)}
	case *ndp.RouteInformation:
		return map[string]any{"k": "route", "pfx": vfCIDR(o.Prefix, o.PrefixLength), "pref": vfPref(o.Preference),
			"life": vfDur(o.RouteLifetime)}
	case *ndp.RecursiveDNSServer:
		ss := make([]any, 0, len(o.Servers))
		for _, s := range o.Servers {
			ss = append(ss, s.String())
		}
		return map[string]any{"k": "rdnss", "life": vfDur(o.Lifetime), "servers": ss}
	case *ndp.DNSSearchList:
		ss := make([]any, 0, len(o.DomainNames))
		for _, s := range o.DomainNames {
			ss = append(ss, s)
		}
		return map[string]any{"k": "dnssl", "life": vfDur(o.Lifetime), "names": ss}
	case *ndp.MTU:
		return map[string]any{"k": "mtu", "mtu": int(o.MTU)}
	case *ndp.LinkLayerAddress:
		dir := "source"
		if o.Direction != ndp.Source {
			dir = "target"
		}
		return map[string]any{"k": "lla", "dir": dir, "addr": o.Addr.String()}
	case *ndp.CaptivePortal:
		return map[string]any{"k": "cp", "uri": o.URI}
	case *ndp.PREF64:
		return map[string]any{"k": "pref64", "pfx": o.Prefix.String(), "life": vfDur(o.Lifetime)}
	case *ndp.RawOption:
		return map[string]any{"k": "raw", "type": int(o.Type), "len": int(o.Length)}
	}
	return map[string]any{"k": fmt.Sprintf("%T", o)}
}

// vfAbsRA renders a whole RA.
func vfAbsRA(ra *ndp.RouterAdvertisement) map[string]any {
	opts := make([]any, 0, len(ra.Options))
	for _, o := range ra.Options {
		opts = append(opts, vfAbsOpt(o))
	}
	return map[string]any{
		"hl": int(ra.CurrentHopLimit), "m": ra.ManagedConfiguration, "o": ra.OtherConfiguration,
		"pref": vfPref(ra.RouterSelectionPreference), "life": vfDur(ra.RouterLifetime),
		"reach": vfDur(ra.ReachableTime), "retrans": vfDur(ra.RetransmitTimer), "opts": opts,
	}
}

// vfBodyDigest is a digest of everything in the RA except the router
// lifetime: "identical except for router lifetime" is equality of digests.
func vfBodyDigest(ra *ndp.RouterAdvertisement) string {
	m := vfAbsRA(ra)
	delete(m, "life")
	b, _ := json.Marshal(m) // map keys are sorted by encoding/json
	h := sha256.Sum256(b)
	return hex.EncodeToString(h[:6])
}
