package PKG

// Shared helpers of the verification harness. This file is injected (with the
// package clause rewritten) into every package under test by `go test -overlay`;
// nothing here exists in /repo. All identifiers carry the vf prefix.

import (
	"bufio"
	"encoding/json"
	"fmt"
	"os"
	"runtime"
	"strconv"
	"strings"
	"sync"
	"time"
)

// vfRec records observable events as ndjson, one object per line. seq is
// assigned under the recorder's lock; t is virtual milliseconds since origin.
type vfRec struct {
	mu     sync.Mutex
	w      *bufio.Writer
	f      *os.File
	seq    int
	origin time.Time
	on     bool
}

func vfNewRec(path string) *vfRec {
	f, err := os.Create(path)
	if err != nil {
		panic(fmt.Sprintf("vf: %v", err))
	}
	return &vfRec{w: bufio.NewWriterSize(f, 1<<20), f: f, origin: time.Now(), on: true}
}

func (r *vfRec) setOrigin(t time.Time) {
	r.mu.Lock()
	r.origin = t
	r.seq = 0
	r.mu.Unlock()
}

// emit writes one event. kv is a flat list of key, value pairs.
func (r *vfRec) emit(ev string, kv ...any) {
	r.mu.Lock()
	defer r.mu.Unlock()
	if !r.on {
		return
	}
	r.seq++
	m := map[string]any{"ev": ev, "seq": r.seq, "t": int(time.Since(r.origin) / time.Millisecond)}
	for i := 0; i+1 < len(kv); i += 2 {
		m[kv[i].(string)] = kv[i+1]
	}
	b, err := json.Marshal(m)
	if err != nil {
		panic(fmt.Sprintf("vf: %v", err))
	}
	r.w.Write(b)
	r.w.WriteByte('\n')
	if ev == "reset" {
		// So that the scenario in progress is known if the process dies.
		r.w.Flush()
	}
}

// raw writes a pre-built object without seq/t (vector lines).
func (r *vfRec) raw(m map[string]any) {
	r.mu.Lock()
	defer r.mu.Unlock()
	b, err := json.Marshal(m)
	if err != nil {
		panic(fmt.Sprintf("vf: %v", err))
	}
	r.w.Write(b)
	r.w.WriteByte('\n')
}

func (r *vfRec) close() {
	r.mu.Lock()
	defer r.mu.Unlock()
	r.w.Flush()
	r.f.Close()
}

func vfEnv(k, def string) string {
	if v := os.Getenv(k); v != "" {
		return v
	}
	return def
}

func vfEnvInt(k string, def int) int {
	if v := os.Getenv(k); v != "" {
		n, err := strconv.Atoi(v)
		if err == nil {
			return n
		}
	}
	return def
}

// vfReadLines reads an ndjson file into a slice of generic objects.
func vfReadLines(path string) []map[string]any {
	f, err := os.Open(path)
	if err != nil {
		panic(fmt.Sprintf("vf: %v", err))
	}
	defer f.Close()
	var out []map[string]any
	sc := bufio.NewScanner(f)
	sc.Buffer(make([]byte, 1<<20), 1<<26)
	for sc.Scan() {
		if len(sc.Bytes()) == 0 {
			continue
		}
		var m map[string]any
		d := json.NewDecoder(bytesReader(sc.Bytes()))
		d.UseNumber()
		if err := d.Decode(&m); err != nil {
			panic(fmt.Sprintf("bad input line %q: %v", sc.Text(), err))
		}
		out = append(out, m)
	}
	return out
}

type vfBytesReader struct {
	b []byte
	i int
}

func (r *vfBytesReader) Read(p []byte) (int, error) {
	if r.i >= len(r.b) {
		return 0, fmt.Errorf("EOF")
	}
	n := copy(p, r.b[r.i:])
	r.i += n
	return n, nil
}

func bytesReader(b []byte) *vfBytesReader { return &vfBytesReader{b: append([]byte(nil), b...)} }

func vfInt(m map[string]any, k string, def int) int {
	v, ok := m[k]
	if !ok {
		return def
	}
	switch x := v.(type) {
	case json.Number:
		n, _ := x.Int64()
		return int(n)
	case float64:
		return int(x)
	case int:
		return x
	}
	return def
}

func vfStr(m map[string]any, k, def string) string {
	if v, ok := m[k].(string); ok {
		return v
	}
	return def
}

func vfBool(m map[string]any, k string, def bool) bool {
	if v, ok := m[k].(bool); ok {
		return v
	}
	return def
}

func vfList(m map[string]any, k string) []any {
	if v, ok := m[k].([]any); ok {
		return v
	}
	return nil
}

func vfMap(m map[string]any, k string) map[string]any {
	if v, ok := m[k].(map[string]any); ok {
		return v
	}
	return map[string]any{}
}

// vfWatchdog ends the process with "VF-HANG" when no event has been recorded for 45 s of REAL time while a goroutine
// of the code under test sits in a mutex / WaitGroup wait (a deadlock there never becomes "durably blocked", so the
// virtual clock of a synctest bubble cannot move and nothing else would ever report it). cur names the scenario.
func vfWatchdog(rec *vfRec, cur func() string) (stop func()) {
	done := make(chan struct{})
	go func() {
		last, still := -1, 0
		for {
			select {
			case <-done:
				return
			case <-time.After(time.Second):
			}
			rec.mu.Lock()
			n := rec.seq
			rec.mu.Unlock()
			if n != last {
				last, still = n, 0
				continue
			}
			if still++; still < 45 {
				continue
			}
			buf := make([]byte, 4<<20)
			buf = buf[:runtime.Stack(buf, true)]
			if blk := vfProductBlocked(string(buf)); blk != "" {
				rec.mu.Lock()
				rec.w.Flush()
				rec.mu.Unlock()
				fmt.Printf("VF-HANG scenario=%s\n%s\n", cur(), blk)
				os.Exit(3)
			}
			still = 0 // not attributable to the code under test: go test's own timeout will end it
		}
	}()
	return func() { close(done) }
}

// vfProductBlocked returns the stack of a goroutine that waits for a lock or a WaitGroup inside a production file.
func vfProductBlocked(dump string) string {
	for _, blk := range strings.Split(dump, "\n\n") {
		i, j := strings.IndexByte(blk, '['), strings.IndexByte(blk, ']')
		if !strings.HasPrefix(blk, "goroutine ") || i < 0 || j < i {
			continue
		}
		st := blk[i+1 : j]
		if !(strings.HasPrefix(st, "sync.") || strings.HasPrefix(st, "semacquire")) {
			continue
		}
		for _, ln := range strings.Split(blk, "\n") {
			ln = strings.TrimSpace(ln)
			if k := strings.Index(ln, "/internal/"); k >= 0 && strings.Contains(ln, ".go:") && !strings.Contains(ln, "/zz_vf_") && !strings.Contains(ln, "/vf_") &&
				!strings.Contains(ln, "/src/internal/") && !strings.Contains(ln, "/pkg/mod/") {
				return blk
			}
		}
	}
	return ""
}

// vfAllBlocked reports whether every goroutine other than the caller is parked (not running, not runnable, not in
// a system call other than the signal receiver), judged from the runtime's own goroutine states.
func vfAllBlocked() bool {
	buf := make([]byte, 1<<20)
	n := runtime.Stack(buf, true)
	first := true
	for _, blk := range strings.Split(string(buf[:n]), "\n\n") {
		if !strings.HasPrefix(blk, "goroutine ") {
			continue
		}
		if first { // the caller itself
			first = false
			continue
		}
		i, j := strings.IndexByte(blk, '['), strings.IndexByte(blk, ']')
		if i < 0 || j < i {
			continue
		}
		state := blk[i+1 : j]
		if k := strings.IndexByte(state, ','); k >= 0 {
			state = state[:k]
		}
		switch state {
		case "running", "runnable":
			return false
		case "syscall":
			if !strings.Contains(blk, "signal_recv") {
				return false
			}
		}
	}
	return true
}
