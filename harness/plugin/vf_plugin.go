package plugin

// Function-level observations of the wildcard and deprecation logic
// (C13-C16): each input vector (TLC-enumerated listing of pool entries, or a
// seeded random listing) is fed to the real plugin through its injectable
// Addrs / Routes / TimeNow fields and the produced options are recorded.

import (
	"context"
	"errors"
	"fmt"
	"io"
	"os"
	"syscall"
	"math"
	"net"
	"net/netip"
	"reflect"
	"testing"
	"testing/synctest"
	"time"

	"github.com/jsimonetti/rtnetlink"
	"github.com/mdlayher/corerad/internal/system"
	"github.com/mdlayher/ndp"
	"github.com/mdlayher/netlink"
	"golang.org/x/sys/unix"
)

// vfViaRtnl turns a listing into synthetic rtnetlink address messages and lets the real
// addresser decode them (second route of the wildcard checks).
func vfViaRtnl(list []any) func() ([]system.IP, error) {
	var msgs []rtnetlink.Message
	for _, x := range list {
		m := x.(map[string]any)
		a := netip.MustParseAddr(vfStr(m, "addr", ""))
		if a.Is4() {
			continue // the kernel filters the dump to AF_INET6
		}
		var f uint32
		if vfBool(m, "dep", false) {
			f |= unix.IFA_F_DEPRECATED
		}
		if vfBool(m, "mt", false) {
			f |= unix.IFA_F_MANAGETEMPADDR
		}
		if vfBool(m, "sp", false) {
			f |= unix.IFA_F_STABLE_PRIVACY
		}
		if vfBool(m, "tmp", false) {
			f |= unix.IFA_F_TEMPORARY
		}
		if vfBool(m, "tent", false) {
			f |= unix.IFA_F_TENTATIVE
		}
		valid := uint32(3600)
		if vfBool(m, "forever", false) {
			valid = math.MaxUint32
		}
		msgs = append(msgs, &rtnetlink.AddressMessage{Family: unix.AF_INET6, PrefixLength: uint8(vfInt(m, "bits", 64)), Index: 7,
			Attributes: &rtnetlink.AddressAttributes{Address: a.AsSlice(), Flags: f, CacheInfo: rtnetlink.CacheInfo{Valid: valid}}})
	}
	ad := system.VFNewAddresser(func(rtnetlink.Message, uint16, netlink.HeaderFlags) ([]rtnetlink.Message, error) { return msgs, nil })
	return func() ([]system.IP, error) { return ad.AddressesByIndex(7) }
}

func vfRoutesViaRtnl(list []any) func() ([]system.Route, error) {
	var msgs []rtnetlink.Message
	for _, x := range list {
		m := x.(map[string]any)
		p := netip.MustParsePrefix(vfStr(m, "pfx", ""))
		if p.Addr().Is4() {
			continue
		}
		msgs = append(msgs, &rtnetlink.RouteMessage{Family: unix.AF_INET6, DstLength: uint8(p.Bits()),
			Attributes: rtnetlink.RouteAttributes{Dst: p.Addr().AsSlice(), OutIface: 1}})
	}
	ad := system.VFNewAddresser(func(rtnetlink.Message, uint16, netlink.HeaderFlags) ([]rtnetlink.Message, error) { return msgs, nil })
	return func() ([]system.Route, error) { return system.VFRoutesByIndex(ad, 1) }
}

func vfGroups(a netip.Addr) []any {
	if a.Is4() {
		b := a.As4()
		return []any{0, 0, 0, 0, 0, 0, int(b[0])<<8 | int(b[1]), int(b[2])<<8 | int(b[3])}
	}
	b := a.As16()
	out := make([]any, 8)
	for i := 0; i < 8; i++ {
		out[i] = int(b[2*i])<<8 | int(b[2*i+1])
	}
	return out
}

func vfIPs(list []any) []system.IP {
	var ips []system.IP
	for _, x := range list {
		m := x.(map[string]any)
		a := netip.MustParseAddr(vfStr(m, "addr", ""))
		ips = append(ips, system.IP{
			Address:                  netip.PrefixFrom(a, vfInt(m, "bits", 64)),
			Deprecated:               vfBool(m, "dep", false),
			ManageTemporaryAddresses: vfBool(m, "mt", false),
			StablePrivacy:            vfBool(m, "sp", false),
			Temporary:                vfBool(m, "tmp", false),
			Tentative:                vfBool(m, "tent", false),
			ValidForever:             vfBool(m, "forever", false),
		})
	}
	return ips
}

func TestVF_Plugin(t *testing.T) {
	in, out := vfEnv("VF_IN", ""), vfEnv("VF_OUT", "")
	if in == "" || out == "" {
		t.Skip("VF_IN / VF_OUT not set")
	}
	rec := vfNewRec(out)
	defer rec.close()
	for _, v := range vfReadLines(in) {
		kind := vfStr(v, "kind", "")
		inp := vfMap(v, "in")
		var res map[string]any
		func() {
			defer func() {
				if r := recover(); r != nil {
					res = map[string]any{"panic": true}
				}
			}()
			switch kind {
			case "c13":
				res = vfC13(inp)
			case "c14":
				res = vfC14(inp)
			case "c15":
				res = vfC15(inp)
			case "c16":
				if vfBool(inp, "prepare", false) {
					res = vfC16Prepared(t, inp)
				} else {
					res = vfC16(inp)
				}
			}
		}()
		rec.raw(map[string]any{"kind": kind, "id": vfStr(v, "id", ""), "in": inp, "out": res})
	}
}

const (
	vfValid = 7200 * time.Second
	vfPref  = 3600 * time.Second
)

func vfC13(in map[string]any) map[string]any {
	fail := vfBool(in, "fail", false)
	onlink, auto := vfBool(in, "onlink", true), vfBool(in, "auto", true)
	// (the parser gives every prefix stanza the daemon's start time; the clock reads an hour later)
	epoch := time.Date(2026, 1, 1, 0, 0, 0, 0, time.UTC)
	p := &Prefix{Auto: true, Prefix: netip.MustParsePrefix("::/64"), OnLink: onlink, Autonomous: auto,
		ValidLifetime: vfValid, PreferredLifetime: vfPref, Epoch: epoch,
		TimeNow: func() time.Time { return epoch.Add(time.Hour) }}
	ips := vfIPs(vfList(in, "addrs"))
	p.Addrs = func() ([]system.IP, error) {
		if fail {
			return nil, vfListErr(in)
		}
		return append([]system.IP(nil), ips...), nil
	}
	if vfStr(in, "via", "") == "rtnl" && !fail {
		p.Addrs = vfViaRtnl(vfList(in, "addrs"))
	}
	ra := &ndp.RouterAdvertisement{}
	if err := p.Apply(ra); err != nil {
		return map[string]any{"err": true, "nets": []any{}, "uniform": true}
	}
	nets, uniform := []any{}, true
	for _, o := range ra.Options {
		pi, ok := o.(*ndp.PrefixInformation)
		if !ok {
			uniform = false
			continue
		}
		if pi.OnLink != onlink || pi.AutonomousAddressConfiguration != auto || pi.ValidLifetime != vfValid || pi.PreferredLifetime != vfPref {
			uniform = false
		}
		nets = append(nets, map[string]any{"h": vfGroups(pi.Prefix), "bits": int(pi.PrefixLength)})
	}
	// A second Apply on the same plugin must give the same options (C01 idempotence).
	ra2 := &ndp.RouterAdvertisement{}
	if err := p.Apply(ra2); err != nil || !reflect.DeepEqual(ra2.Options, ra.Options) {
		uniform = false
	}
	return map[string]any{"err": false, "nets": nets, "uniform": uniform}
}

func vfC14(in map[string]any) map[string]any {
	fail := vfBool(in, "fail", false)
	// the configured list lives in a slice with spare capacity (as a parser that sizes it generously would leave it):
	// building the option must not write into it
	static := make([]netip.Addr, 0, len(vfList(in, "static"))+3)
	for _, x := range vfList(in, "static") {
		static = append(static, netip.MustParseAddr(vfStr(x.(map[string]any), "addr", "")))
	}
	before := append([]netip.Addr(nil), static...)
	r := &RDNSS{Auto: true, Lifetime: 1800 * time.Second, Servers: static}
	ips := vfIPs(vfList(in, "addrs"))
	r.Addrs = func() ([]system.IP, error) {
		if fail {
			return nil, vfListErr(in)
		}
		return append([]system.IP(nil), ips...), nil
	}
	if vfStr(in, "via", "") == "rtnl" && !fail {
		r.Addrs = vfViaRtnl(vfList(in, "addrs"))
	}
	ra := &ndp.RouterAdvertisement{}
	if err := r.Apply(ra); err != nil {
		return map[string]any{"err": true, "servers": []any{}}
	}
	// built a second time: the same option again, and the configured list untouched
	ra2 := &ndp.RouterAdvertisement{}
	err2 := r.Apply(ra2)
	servers := []any{}
	if len(ra.Options) == 1 {
		if o, ok := ra.Options[0].(*ndp.RecursiveDNSServer); ok && o.Lifetime == 1800*time.Second {
			for _, s := range o.Servers {
				servers = append(servers, vfGroups(s))
			}
		}
	}
	same := len(r.Servers) == len(before)
	for i := 0; same && i < len(before); i++ {
		same = r.Servers[i] == before[i]
	}
	if err2 != nil || !reflect.DeepEqual(ra.Options, ra2.Options) || !same {
		servers = append(servers, []any{-1}) // a value no address has: the result is not reproducible
	}
	return map[string]any{"err": false, "servers": servers}
}

func vfC15(in map[string]any) map[string]any {
	fail := vfBool(in, "fail", false)
	var routes []system.Route
	for _, x := range vfList(in, "routes") {
		m := x.(map[string]any)
		// the dump may carry the kernel's own preference for a route; the advertised one is the stanza's
		routes = append(routes, system.Route{Prefix: netip.MustParsePrefix(vfStr(m, "pfx", "")), Index: 1,
			Preference: []ndp.Preference{ndp.Medium, ndp.Low, ndp.High, ndp.Medium}[len(routes)%4]})
	}
	r := &Route{Auto: true, Prefix: netip.MustParsePrefix("::/0"), Preference: ndp.High, Lifetime: vfValid}
	r.Routes = func() ([]system.Route, error) {
		if fail {
			return nil, vfListErr(in)
		}
		return append([]system.Route(nil), routes...), nil
	}
	if vfStr(in, "via", "") == "rtnl" && !fail {
		r.Routes = vfRoutesViaRtnl(vfList(in, "routes"))
	}
	ra := &ndp.RouterAdvertisement{}
	if err := r.Apply(ra); err != nil {
		return map[string]any{"err": true, "nets": []any{}, "uniform": true}
	}
	nets, uniform := []any{}, true
	for _, o := range ra.Options {
		ri, ok := o.(*ndp.RouteInformation)
		if !ok {
			uniform = false
			continue
		}
		if ri.Preference != ndp.High || ri.RouteLifetime != vfValid {
			uniform = false
		}
		nets = append(nets, map[string]any{"h": vfGroups(ri.Prefix), "bits": int(ri.PrefixLength)})
	}
	return map[string]any{"err": false, "nets": nets, "uniform": uniform}
}

// vfC16Prepared: the same count-down, but with the clock the plugins install themselves (Prepare, as Advertiser.Run
// calls it at every (re)initialisation of the interface), under virtual time. "reads" are offsets from the epoch
// (whole units), "reprepare" the read indices before which Prepare runs again: the deadline stays where it was.
func vfC16Prepared(t *testing.T, in map[string]any) map[string]any {
	unit := time.Second
	if vfStr(in, "unit", "s") == "ns" {
		unit = time.Nanosecond
	}
	var lts, ncalls []any
	synctest.Test(t, func(t *testing.T) {
		// epoch = now + in.epoch (the reads are absolute in the same scale, as in vfC16)
		base := time.Now()
		at := func(x int) time.Time { return base.Add(time.Duration(x) * unit) }
		dep := vfBool(in, "deprecated", true)
		p := &Prefix{Prefix: netip.MustParsePrefix("2001:db8::/64"), OnLink: true, Autonomous: true,
			ValidLifetime: time.Duration(vfInt(in, "valid", 0)) * unit, PreferredLifetime: time.Duration(vfInt(in, "pref", 0)) * unit,
			Deprecated: dep, Epoch: at(vfInt(in, "epoch", 0))}
		r := &Route{Prefix: netip.MustParsePrefix("2001:db8:1::/48"), Preference: ndp.Medium,
			Lifetime: time.Duration(vfInt(in, "rl", 0)) * unit, Deprecated: dep, Epoch: at(vfInt(in, "epoch", 0))}
		ifi := &net.Interface{Name: "vf0", Index: 7}
		_ = p.Prepare(ifi)
		_ = r.Prepare(ifi)
		again := map[int]bool{}
		for _, x := range vfList(in, "reprepare") {
			again[vfNum(x)] = true
		}
		for i, x := range vfList(in, "reads") {
			if d := at(vfNum(x)).Sub(time.Now()); d > 0 {
				time.Sleep(d)
			}
			if again[i] {
				_ = p.Prepare(ifi)
				_ = r.Prepare(ifi)
			}
			ra := &ndp.RouterAdvertisement{}
			_ = p.Apply(ra)
			_ = r.Apply(ra)
			row := []any{-1, -1, -1}
			for _, o := range ra.Options {
				switch o := o.(type) {
				case *ndp.PrefixInformation:
					row[0], row[1] = int(o.ValidLifetime/unit), int(o.PreferredLifetime/unit)
					if o.ValidLifetime%unit != 0 || o.PreferredLifetime%unit != 0 {
						row[0] = -2
					}
				case *ndp.RouteInformation:
					row[2] = int(o.RouteLifetime / unit)
				}
			}
			lts = append(lts, row)
			ncalls = append(ncalls, []any{1, 1})
		}
	})
	return map[string]any{"lifetimes": lts, "calls": ncalls}
}

func vfNum(x any) int {
	switch n := x.(type) {
	case interface{ Int64() (int64, error) }:
		v, _ := n.Int64()
		return int(v)
	case float64:
		return int(n)
	case int:
		return n
	}
	return 0
}

func vfC16(in map[string]any) map[string]any {
	unit := time.Second
	if vfStr(in, "unit", "s") == "ns" {
		unit = time.Nanosecond
	}
	base := time.Date(2026, 1, 1, 0, 0, 0, 0, time.UTC)
	at := func(x int) time.Time { return base.Add(time.Duration(x) * unit) }
	dep := vfBool(in, "deprecated", true)
	// "tick": the clock advances by that much on every reading within one Apply (a real clock never stands still);
	// the number of readings per Apply is reported so that the requirement can ask for one consistent reading.
	var now time.Time
	tick := time.Duration(vfInt(in, "tick", 0)) * unit
	calls := 0
	clock := func() time.Time {
		t := now.Add(time.Duration(calls) * tick)
		calls++
		return t
	}
	p := &Prefix{Prefix: netip.MustParsePrefix("2001:db8::/64"), OnLink: true, Autonomous: true,
		ValidLifetime: time.Duration(vfInt(in, "valid", 0)) * unit, PreferredLifetime: time.Duration(vfInt(in, "pref", 0)) * unit,
		Deprecated: dep, Epoch: at(vfInt(in, "epoch", 0)), TimeNow: clock}
	r := &Route{Prefix: netip.MustParsePrefix("2001:db8:1::/48"), Preference: ndp.Medium,
		Lifetime: time.Duration(vfInt(in, "rl", 0)) * unit, Deprecated: dep, Epoch: at(vfInt(in, "epoch", 0)),
		TimeNow: clock}
	if vfBool(in, "wild", false) {
		// the ::/64 wildcard over one interface address, which the kernel may flag deprecated ("kdep"): whether the
		// stanza counts down is the configuration's choice, not the kernel's
		p.Auto, p.Prefix = true, netip.MustParsePrefix("::/64")
		kdep := vfBool(in, "kdep", false)
		p.Addrs = func() ([]system.IP, error) {
			return []system.IP{{Address: netip.MustParsePrefix("2001:db8::1/64"), Deprecated: kdep},
				{Address: netip.MustParsePrefix("fe80::1/64")}}, nil
		}
	}
	var lts, ncalls []any
	for _, x := range vfList(in, "reads") {
		tt := 0
		switch n := x.(type) {
		case interface{ Int64() (int64, error) }:
			v, _ := n.Int64()
			tt = int(v)
		case float64:
			tt = int(n)
		}
		now = at(tt)
		ra := &ndp.RouterAdvertisement{}
		calls = 0
		_ = p.Apply(ra)
		pc := calls
		calls = 0
		_ = r.Apply(ra)
		ncalls = append(ncalls, []any{pc, calls})
		row := []any{-1, -1, -1}
		for _, o := range ra.Options {
			switch o := o.(type) {
			case *ndp.PrefixInformation:
				row[0], row[1] = int(o.ValidLifetime/unit), int(o.PreferredLifetime/unit)
				if o.ValidLifetime%unit != 0 || o.PreferredLifetime%unit != 0 {
					row[0] = -2
				}
			case *ndp.RouteInformation:
				row[2] = int(o.RouteLifetime / unit)
			}
		}
		lts = append(lts, row)
	}
	return map[string]any{"lifetimes": lts, "calls": ncalls}
}

// vfListErr: the error a failing address listing / route dump returns; whatever its class, RA generation has to fail
func vfListErr(in map[string]any) error {
	switch vfStr(in, "failkind", "other") {
	case "notexist":
		return fmt.Errorf("vf: listing: %w", os.ErrNotExist)
	case "enoent":
		return os.NewSyscallError("netlink receive", syscall.ENOENT)
	case "patherr":
		return &os.PathError{Op: "open", Path: "/proc/sys/net/ipv6/conf/vf0", Err: syscall.ENOENT}
	case "enodev":
		return os.NewSyscallError("netlink receive", syscall.ENODEV)
	case "eintr":
		return syscall.EINTR
	case "perm":
		return fmt.Errorf("vf: listing: %w", os.ErrPermission)
	case "canceled":
		return fmt.Errorf("vf: listing: %w", context.Canceled)
	case "deadline":
		return os.ErrDeadlineExceeded
	case "eof":
		return io.EOF
	}
	return errors.New("vf: listing failed")
}
