package corerad

// Scenario interpreter for advertiser / monitor sessions. Every scenario runs
// the unmodified Advertiser (or Monitor) in its own testing/synctest bubble
// (virtual time), driven step by step from a script that the TLA+ side
// generated, and records the observable events as ndjson.

import (
	"context"
	"fmt"
	"log"
	"net"
	"net/http/httptest"
	"net/netip"
	"os"
	"runtime"
	"strings"
	"sync"
	"sync/atomic"
	"syscall"
	"testing"
	"testing/synctest"
	"time"

	"github.com/mdlayher/corerad/internal/config"
	"github.com/mdlayher/corerad/internal/crhttp"
	"github.com/mdlayher/corerad/internal/netstate"
	"github.com/mdlayher/corerad/internal/system"
	"github.com/mdlayher/ndp"
)

// TestVF_Adv is the entry point used by /verif/check for the advertiser family.
func TestVF_Adv(t *testing.T) {
	in, out := vfEnv("VF_IN", ""), vfEnv("VF_OUT", "")
	if in == "" || out == "" {
		t.Skip("VF_IN / VF_OUT not set")
	}
	rec := vfNewRec(out)
	defer rec.close()
	var cur atomic.Value
	cur.Store("")
	defer vfWatchdog(rec, func() string { return cur.Load().(string) })()
	for _, sc := range vfReadLines(in) {
		cur.Store(vfStr(sc, "id", ""))
		res := vfBubble(t, func(t *testing.T) { vfRunScenario(t, rec, sc) })
		if res != "" {
			// A goroutine left blocked forever (or any other panic) when the
			// bubble ended.
			kind := "panic"
			if strings.Contains(res, "deadlock") || strings.Contains(res, "blocked") {
				kind = "leak"
			}
			rec.emit(kind, "id", vfStr(sc, "id", ""), "msg", res)
		}
		rec.emit("end", "id", vfStr(sc, "id", ""))
	}
}

func vfBubble(t *testing.T, f func(t *testing.T)) (res string) {
	defer func() {
		if r := recover(); r != nil {
			res = fmt.Sprint(r)
		}
	}()
	synctest.Test(t, f)
	return ""
}

// vfServeTask is an interface task (advertiser or monitor) as handed to Server.Serve.
type vfServeTask struct {
	name  string
	ready <-chan struct{}
	run   func(context.Context) error
}

func (t *vfServeTask) Run(ctx context.Context) error { return t.run(ctx) }
func (t *vfServeTask) String() string                { return "vf-task-" + t.name }
func (t *vfServeTask) Ready() <-chan struct{} {
	if t.ready != nil {
		return t.ready
	}
	c := make(chan struct{})
	close(c)
	return c
}

type vfSession struct {
	ifi     string
	cancel  context.CancelFunc
	done    chan struct{}
	watchC  chan netstate.Change
	wclosed bool
}

func vfTOML(cfg map[string]any, names []string) string {
	var b strings.Builder
	for _, n := range names {
		fmt.Fprintf(&b, "[[interfaces]]\nname = %q\n", n)
		if vfStr(cfg, "mode", "adv") == "mon" {
			b.WriteString("monitor = true\n")
			continue
		}
		b.WriteString("advertise = true\n")
		fmt.Fprintf(&b, "unicast_only = %t\n", vfBool(cfg, "unicast", false))
		fmt.Fprintf(&b, "max_interval = \"%dms\"\n", vfInt(cfg, "max", 600000))
		if mn := vfInt(cfg, "min", 200000); mn >= 0 {
			fmt.Fprintf(&b, "min_interval = \"%dms\"\n", mn)
		}
		if l := vfInt(cfg, "life", -1); l >= 0 {
			fmt.Fprintf(&b, "default_lifetime = \"%ds\"\n", l)
		}
		b.WriteString("mtu = 1500\n")
		// every header field away from its default and one option of every kind, so that "all other content
		// unchanged" (C04, C08) has something to lose
		if !vfBool(cfg, "plain", false) {
			b.WriteString("preference = \"high\"\nmanaged = true\nother_config = true\nhop_limit = 32\n")
			b.WriteString("reachable_time = \"30s\"\nretransmit_timer = \"1s\"\ncaptive_portal = \"https://portal.example/\"\n")
		}
		b.WriteString(vfStr(cfg, "extra", ""))
		b.WriteString("  [[interfaces.prefix]]\n  prefix = \"2001:db8::/64\"\n")
		b.WriteString("  [[interfaces.rdnss]]\n  servers = [\"2001:db8::53\"]\n")
		if !vfBool(cfg, "plain", false) {
			b.WriteString("  [[interfaces.route]]\n  prefix = \"2001:db8:f::/48\"\n  preference = \"low\"\n")
			b.WriteString("  [[interfaces.dnssl]]\n  domain_names = [\"lan.example\"]\n")
			b.WriteString("  [[interfaces.pref64]]\n  prefix = \"64:ff9b::/96\"\n")
		}
	}
	return b.String()
}

func vfRunScenario(t *testing.T, rec *vfRec, sc map[string]any) {
	cfg := vfMap(sc, "cfg")
	id := vfStr(sc, "id", "")
	if off := vfInt(cfg, "offset", 0); off > 0 {
		time.Sleep(time.Duration(off) * time.Millisecond)
	}
	rec.setOrigin(time.Now())

	nif := vfInt(cfg, "ifaces", 1)
	names := []string{}
	for i := 0; i < nif; i++ {
		names = append(names, fmt.Sprintf("vf%d", i))
	}
	mode := vfStr(cfg, "mode", "adv")

	w := vfNewWorld(rec)
	w.fullRA = vfBool(cfg, "fullra", false)
	for _, n := range names {
		w.fwd[n] = vfBool(cfg, "fwd", true)
		w.auto[n] = vfBool(cfg, "auto", true)
	}
	st := vfState{w: w}

	doc := vfStr(cfg, "toml", "")
	if doc == "" {
		doc = vfTOML(cfg, names)
	}
	parsed, err := config.Parse(strings.NewReader(doc), time.Now())
	if err != nil {
		rec.emit("reset", "id", id, "bad", err.Error())
		return
	}

	life0, min0, max0 := 0, 0, 0
	if mode == "adv" {
		life0 = int(parsed.Interfaces[0].DefaultLifetime / time.Second)
		min0 = int(parsed.Interfaces[0].MinInterval / time.Millisecond)
		max0 = int(parsed.Interfaces[0].MaxInterval / time.Millisecond)
	}
	rec.emit("reset", "id", id, "mode", mode, "unicast", vfBool(cfg, "unicast", false),
		"min", min0, "max", max0, "cfglife", life0,
		"fwd", vfBool(cfg, "fwd", true), "nif", nif, "quiet", vfBool(cfg, "quiet", false),
		"base_ms", rec.origin.UnixMilli())

	vm := vfNewMetrics(w)
	mm := NewMetrics(vm, "vf", time.Time{}, st, parsed.Interfaces)
	ll := log.New(vfLogWriter{w: w}, "", 0)
	cctx := NewContext(ll, mm, st)
	// (as in a real deployment the API's configuration also lists an interface that advertises nothing - a monitored
	// uplink - before the advertising ones; it shares the Interface values, and so the plugins, with the tasks)
	hcfg := *parsed
	hcfg.Interfaces = append([]config.Interface{{Name: "vfidle", Monitor: true}}, parsed.Interfaces...)
	handler := crhttp.NewHandler(ll, st, hcfg, nil)

	var (
		termMu sync.Mutex
		term   bool
	)
	terminate := func() bool { termMu.Lock(); defer termMu.Unlock(); return term }

	// "serve": the interface tasks run under the real Server.Serve with its real signal task and terminator; a stop
	// request is a signal on sigC. The advertisers ask the real terminator through a closure that records the
	// question, so the driver can tell whether it was asked before the signal kind was recorded (see "cancel").
	serveMode := vfBool(cfg, "serve", false)
	var (
		srv       *Server
		sigC      chan os.Signal
		tasks     []Task
		asked     atomic.Int32
		autoOnce  sync.Once
		serveDone = make(chan struct{})
	)
	if serveMode {
		srv = NewServer(cctx)
		sigC = make(chan os.Signal, 1)
		terminate = func() bool {
			asked.Add(1)
			rec.emit("termask")
			return srv.t.terminate()
		}
	}

	dials := vfList(cfg, "dials")
	var dialMu sync.Mutex
	ndial := 0

	curConn := map[string]*vfConn{}
	var connMu sync.Mutex

	sessions := map[string]*vfSession{}
	var wg sync.WaitGroup
	var (
		dialAt    = map[string]time.Time{}
		dialBurst = map[string]int{}
	)
	for idx, n := range names {
		n := n
		ifc := parsed.Interfaces[idx]
		dmode := system.Advertise
		if mode == "mon" {
			dmode = system.Monitor
		}
		d := system.NewDialer(n, st, dmode, ll)
		d.DialFunc = func() (*system.DialContext, error) {
			w.pass("dial")
			dialMu.Lock()
			res := "ok"
			if ndial < len(dials) {
				res, _ = dials[ndial].(string)
			}
			ndial++
			// The Dialer re-dials at once after a recoverable task error and backs off only between failed dial
			// attempts, so a fault that persists (an armed write failure hitting every initial RA) would loop
			// without virtual time ever advancing. The environment answers the 4th successful dial within one
			// instant with "link not ready", which makes the Dialer wait and hands control back to the scenario.
			if now := time.Now(); !now.Equal(dialAt[n]) {
				dialAt[n], dialBurst[n] = now, 0
			}
			if res == "ok" {
				if dialBurst[n]++; dialBurst[n] > 3 {
					res = "lnr"
				}
			}
			dialMu.Unlock()
			if res != "ok" {
				rec.emit("dial", "ifi", n, "k", 0, "res", res)
				return nil, vfErrClass(res)
			}
			c := w.newConn(n)
			connMu.Lock()
			curConn[n] = c
			connMu.Unlock()
			rec.emit("dial", "ifi", n, "k", c.k, "res", "ok")
			done := func() error {
				w.pass("done")
				connMu.Lock()
				if curConn[n] == c {
					delete(curConn, n)
				}
				connMu.Unlock()
				rec.emit("done", "ifi", n, "k", c.k)
				return nil
			}
			return system.VFNewDialContext(c, &net.Interface{Name: n, Index: 7 + idx,
				HardwareAddr: net.HardwareAddr{2, 0, 0, 0, 0, byte(idx + 1)}}, netip.MustParseAddr("fe80::1"), done), nil
		}

		ctx, cancel := context.WithCancel(context.Background())
		s := &vfSession{ifi: n, cancel: cancel, done: make(chan struct{}), watchC: make(chan netstate.Change, 8)}
		sessions[n] = s

		var run func(context.Context) error
		var taskOf any
		if mode == "mon" {
			m := NewMonitor(cctx, n, d, s.watchC, vfBool(cfg, "verbose", false))
			run, taskOf = m.Run, m
		} else {
			ad := NewAdvertiser(cctx, ifc, d, s.watchC, terminate)
			ad.OnInconsistentRA = func(ours, theirs *ndp.RouterAdvertisement) {
				rec.emit("hook", "ifi", n, "life", int(ours.RouterLifetime/time.Second), "body", vfBodyDigest(ours))
			}
			run, taskOf = ad.Run, ad
		}
		if serveMode {
			var ready <-chan struct{}
			if r, ok := taskOf.(interface{ Ready() <-chan struct{} }); ok {
				ready = r.Ready()
			}
			tasks = append(tasks, &vfServeTask{name: n, ready: ready, run: func(ctx context.Context) error {
				err := run(ctx)
				if err != nil {
					rec.emit("ret", "ifi", n, "res", "err", "msg", err.Error())
					// Serve is about to cancel the other tasks because of this error (a reload-like stop for them)
					autoOnce.Do(func() { rec.emit("cancel", "term", false, "auto", true, "cause", n) })
				} else {
					rec.emit("ret", "ifi", n, "res", "nil", "msg", "")
				}
				close(s.done)
				return err
			}})
			continue
		}
		wg.Add(1)
		go func() {
			defer wg.Done()
			err := run(ctx)
			if err != nil {
				rec.emit("ret", "ifi", n, "res", "err", "msg", err.Error())
			} else {
				rec.emit("ret", "ifi", n, "res", "nil", "msg", "")
			}
			close(s.done)
		}()
	}
	if serveMode {
		go func() {
			err := srv.Serve(sigC, nil, tasks)
			rec.emit("sret", "err", err != nil)
			close(serveDone)
		}()
	}
	// stop requests: the driver's own cancel function, or a signal delivered to the real signal task
	stopAll := func(term bool) {
		if !serveMode {
			for _, s := range sessions {
				s.cancel()
			}
			return
		}
		var sg os.Signal = syscall.SIGHUP
		if term {
			sg = syscall.SIGTERM
		}
		// Delivered while the driver holds the terminator's mutex: the signal kind cannot be recorded before the
		// driver lets go, so a task that asks terminate() meanwhile was cancelled before the decision existed.
		// "tgate false" is written before the mutex is released.
		srv.t.mu.Lock()
		rec.emit("tgate", "held", true)
		before := asked.Load()
		select {
		case sigC <- sg:
		default:
		}
		for i := 0; i < 20000 && asked.Load() == before; i++ {
			runtime.Gosched()
		}
		rec.emit("tgate", "held", false)
		srv.t.mu.Unlock()
	}
	synctest.Wait()
	rec.emit("quiet")

	cancelled := false
	push := func(ifi string, m vfMsg) {
		connMu.Lock()
		c := curConn[ifi]
		connMu.Unlock()
		if c == nil {
			rec.emit("arrive", "ifi", ifi, "k", 0, "kind", m.kind, "src", vfSrcName(m.from), "hl", m.hl, "tag", m.tag)
			return
		}
		rec.emit("arrive", "ifi", ifi, "k", c.k, "kind", m.kind, "src", vfSrcName(m.from), "hl", m.hl, "tag", m.tag)
		c.inbox <- m
	}

	for _, raw := range vfList(sc, "steps") {
		st, _ := raw.(map[string]any)
		op := vfStr(st, "op", "")
		ifi := vfStr(st, "ifi", "vf0")
		switch op {
		case "adv":
			to := time.Duration(vfInt(st, "to", 0)) * time.Millisecond
			now := time.Since(rec.origin)
			if to > now {
				rec.emit("advance", "to", int(to/time.Millisecond))
				time.Sleep(to - now)
			}
		case "sleep":
			d := time.Duration(vfInt(st, "d", 0)) * time.Millisecond
			rec.emit("advance", "to", int((time.Since(rec.origin)+d)/time.Millisecond))
			time.Sleep(d)
		case "rs", "msg":
			kind := vfStr(st, "kind", "rs")
			src := vfStr(st, "src", "fe80::aa")
			from := netip.IPv6Unspecified()
			if src != "unspec" {
				from = netip.MustParseAddr(src)
			}
			// like ndp.Conn, the stub reports every source address with the interface as its zone (the unspecified
			// address included) unless the scenario says otherwise
			if vfBool(st, "zone", true) {
				from = from.WithZone(ifi)
			}
			var m ndp.Message
			switch kind {
			case "rs":
				rs := &ndp.RouterSolicitation{}
				if vfBool(st, "lla", false) {
					rs.Options = append(rs.Options, &ndp.LinkLayerAddress{Direction: ndp.Source,
						Addr: net.HardwareAddr{2, 0, 0, 0, 1, 1}})
				}
				m = rs
			case "ns":
				m = &ndp.NeighborSolicitation{TargetAddress: netip.MustParseAddr("fe80::1")}
			case "na":
				m = &ndp.NeighborAdvertisement{TargetAddress: netip.MustParseAddr("fe80::2")}
			case "ra":
				if spec := vfMap(st, "spec"); len(spec) > 0 {
					// A scripted RA (C18), optionally passed through the codec.
					ra := vfBuildRA(spec)
					if vfBool(st, "wire", false) {
						rt, err := vfRoundTrip(ra)
						if err != nil {
							panic(fmt.Sprintf("vf: %v", err))
						}
						ra = rt
					}
					m = ra
					break
				}
				// Another router's RA: ours after a wire round trip, optionally
				// with one header field changed.
				var own *ndp.RouterAdvertisement
				for i, n := range names {
					if n == ifi && mode == "adv" {
						own, _, _ = parsed.Interfaces[i].RouterAdvertisement(true)
					}
				}
				if own == nil {
					own = &ndp.RouterAdvertisement{CurrentHopLimit: 64, RouterLifetime: 1800 * time.Second}
				}
				b, err := ndp.MarshalMessage(own)
				if err != nil {
					panic(fmt.Sprintf("vf: %v", err))
				}
				pm, err := ndp.ParseMessage(b)
				if err != nil {
					panic(fmt.Sprintf("vf: %v", err))
				}
				ra := pm.(*ndp.RouterAdvertisement)
				if vfStr(st, "variant", "same") == "diffhl" {
					ra.CurrentHopLimit++
				}
				m = ra
			}
			tag := vfStr(st, "tag", "")
			if kind == "ra" {
				tag = "same"
				if vfStr(st, "variant", "same") == "diffhl" {
					tag = "diff"
				}
			}
			push(ifi, vfMsg{kind: kind, m: m, hl: vfInt(st, "hl", 255), from: from, tag: tag})
		case "timeout":
			push(ifi, vfMsg{kind: "timeout", err: vfTimeout{}})
		case "readerr":
			push(ifi, vfMsg{kind: "readerr:" + vfStr(st, "class", "other"), err: vfErrClass(vfStr(st, "class", "other"))})
		case "cancel":
			termMu.Lock()
			term = vfBool(st, "term", false)
			termMu.Unlock()
			rec.emit("cancel", "term", vfBool(st, "term", false), "auto", false)
			cancelled = true
			stopAll(vfBool(st, "term", false))
		case "link":
			if sessions[ifi].wclosed {
				break // no watcher any more: nothing can be notified
			}
			rec.emit("link", "ifi", ifi)
			select {
			case sessions[ifi].watchC <- netstate.LinkDown:
			default:
			}
		case "wclose":
			// the watcher ends: every subscriber channel is closed (C19); for the task that is not a link change
			rec.emit("wclose", "ifi", ifi)
			if s := sessions[ifi]; !s.wclosed {
				s.wclosed = true
				close(s.watchC)
			}
		case "flip":
			w.mu.Lock()
			nv := vfBool(st, "val", false)
			if vfBool(st, "toggle", false) {
				nv = !w.fwd[ifi]
			}
			w.fwd[ifi] = nv
			w.mu.Unlock()
			rec.emit("flip", "ifi", ifi, "val", nv)
		case "fwderr":
			w.mu.Lock()
			w.fwdErr[ifi] = vfStr(st, "class", "")
			w.mu.Unlock()
		case "hold":
			rec.emit("hold", "key", vfStr(st, "key", ""))
			w.hold(vfStr(st, "key", ""))
		case "release":
			rec.emit("release", "key", vfStr(st, "key", ""))
			w.release(vfStr(st, "key", ""))
		case "failw":
			w.mu.Lock()
			if c := vfStr(st, "class", ""); c == "" {
				delete(w.failw, vfStr(st, "dst", "*"))
			} else {
				w.failw[vfStr(st, "dst", "*")] = c
			}
			w.mu.Unlock()
		case "snap":
			rec.emit("metrics", "vals", vm.snapshot())
		case "scrape":
			rec.emit("scrape_call")
			samples, errs, pan := vm.doScrape()
			rec.emit("scrape", "samples", samples, "err", errs, "panic", pan)
		case "api":
			rec.emit("api_call")
			rr := httptest.NewRecorder()
			func() {
				defer func() {
					if r := recover(); r != nil {
						rr.Code = -1
					}
				}()
				handler.ServeHTTP(rr, httptest.NewRequest("GET", "/_/api/interfaces", nil))
			}()
			rec.emit("api", "status", rr.Code, "body", strings.TrimSpace(rr.Body.String()))
		case "wait":
		default:
			panic("vf: unknown op " + op)
		}
		if !vfBool(st, "nowait", false) {
			synctest.Wait()
			rec.emit("quiet")
		}
	}

	// Wind down: release every gate, stop (as a reload) if the script did not,
	// and see whether Run returns.
	for _, k := range w.heldKeys() {
		rec.emit("release", "key", k)
		w.release(k)
	}
	synctest.Wait()
	rec.emit("quiet")
	if !cancelled {
		rec.emit("cancel", "term", false, "auto", true)
		stopAll(false)
		synctest.Wait()
	}
	alldone := func() bool {
		for _, s := range sessions {
			select {
			case <-s.done:
			default:
				return false
			}
		}
		return true
	}
	if !alldone() {
		// Allow bounded virtual time (back-off timers and the like).
		time.Sleep(10 * time.Second)
		synctest.Wait()
	}
	if !alldone() {
		rec.emit("hang")
	}
	if serveMode {
		select {
		case <-serveDone:
		default:
			rec.emit("hang")
		}
	}
	rec.emit("metrics", "vals", vm.snapshot())
	_ = wg
}
