package corerad

// C17: the observability surface wired as in cmd/corerad/main.go (the same
// config.Interface values, i.e. the same plugin pointers, go to the metrics
// collector and to the debug API handler): a pedantic Prometheus registry with
// the metricslite Prometheus backend, and crhttp.Handler with promhttp.

import (
	"encoding/json"
	"errors"
	"fmt"
	"io"
	"log"
	"math"
	"net"
	"net/http/httptest"
	"net/netip"
	"os"
	"strings"
	"testing"
	"time"

	"github.com/mdlayher/corerad/internal/config"
	"github.com/mdlayher/corerad/internal/crhttp"
	"github.com/mdlayher/corerad/internal/plugin"
	"github.com/mdlayher/corerad/internal/system"
	"github.com/mdlayher/metricslite"
	"github.com/prometheus/client_golang/prometheus"
	"github.com/prometheus/client_golang/prometheus/promhttp"
)

func vfGroupsO(a netip.Addr) []any {
	b := a.As16()
	out := make([]any, 8)
	for i := 0; i < 8; i++ {
		out[i] = int(b[2*i])<<8 | int(b[2*i+1])
	}
	return out
}

func vfSecDur(v float64) map[string]any {
	if v >= 4294967295 {
		if v == 4294967295 {
			return map[string]any{"k": "inf", "s": 0, "ms": 0, "ns": 0}
		}
		return map[string]any{"k": "over", "s": 0, "ms": 0, "ns": 0}
	}
	return vfDur(time.Duration(math.Round(v * 1e9)))
}

// vfWhole is v as an integer; a value that is not a whole number (no gauge here ever is one) becomes a value nothing
// in the specification can equal.
func vfWhole(v float64) int {
	if v != math.Trunc(v) {
		return -1000003
	}
	return int(v)
}

var vfObsEpoch = time.Date(2026, 1, 1, 0, 0, 0, 0, time.UTC)

type vfObsState struct {
	fwd, auto      bool
	fwdErr, autoEr bool
}

func (s vfObsState) IPv6Autoconf(string) (bool, error) {
	if s.autoEr {
		return false, errors.New("vf: autoconf read failed")
	}
	return s.auto, nil
}
func (s vfObsState) IPv6Forwarding(string) (bool, error) {
	if s.fwdErr {
		return false, errors.New("vf: forwarding read failed")
	}
	return s.fwd, nil
}
func (s vfObsState) SetIPv6Autoconf(string, bool) error { return nil }

func TestVF_Observe(t *testing.T) {
	in, out := vfEnv("VF_IN", ""), vfEnv("VF_OUT", "")
	if in == "" || out == "" {
		t.Skip("VF_IN / VF_OUT not set")
	}
	rec := vfNewRec(out)
	defer rec.close()
	for _, v := range vfReadLines(in) {
		// flushed marker: if a collector goroutine kills the process this is the vector in progress
		rec.emit("reset", "id", vfStr(v, "id", ""))
		// a scrape or request that does not come back within 20 s of real time is blocked (nothing here waits for
		// anything but locks): the process is ended as a hang of the code under test
		resC := make(chan map[string]any, 1)
		go func() { resC <- vfObserve(v) }()
		var res map[string]any
		select {
		case res = <-resC:
		case <-time.After(20 * time.Second):
			rec.mu.Lock()
			rec.w.Flush()
			rec.mu.Unlock()
			fmt.Printf("VF-HANG scenario=%s\n", vfStr(v, "id", ""))
			os.Exit(3)
		}
		o := map[string]any{"ev": "obs", "kind": "obs", "id": vfStr(v, "id", ""), "out": res, "doc": v["doc"], "sys": v["sys"],
			"lifecycle": vfStr(v, "lifecycle", "up"), "fwderr": vfBool(v, "fwderr", false),
			"autoerr": vfBool(v, "autoerr", false)}
		rec.raw(o)
	}
}

func vfObserve(v map[string]any) (res map[string]any) {
	res = map[string]any{"accepted": false, "panic": false, "gather": map[string]any{"ok": false, "samples": []any{}},
		"http": map[string]any{}, "api": []any{}}
	defer func() {
		if r := recover(); r != nil {
			res["panic"] = true
		}
	}()
	cfg, err := config.Parse(strings.NewReader(vfStr(v, "toml", "")), vfObsEpoch)
	if err != nil {
		return res
	}
	res["accepted"] = true
	sys := vfMap(v, "sys")
	st := vfObsState{fwd: vfBool(sys, "fwd", true), auto: vfBool(sys, "auto", true), fwdErr: vfBool(v, "fwderr", false), autoEr: vfBool(v, "autoerr", false)}
	reg := prometheus.NewPedanticRegistry()
	mm := NewMetrics(metricslite.NewPrometheus(reg), "vf", time.Time{}, st, cfg.Interfaces)
	ll := log.New(io.Discard, "", 0)
	h := crhttp.NewHandler(ll, st, *cfg, promhttp.HandlerFor(reg, promhttp.HandlerOpts{}))
	// the wiring of cmd/corerad/main.go: the same configuration value then goes to BuildTasks (the tasks are not run)
	_ = NewServer(NewContext(ll, mm, st)).BuildTasks(*cfg, h)

	// "at any point in the daemon's life": the same registry and handler are asked before the interface comes up,
	// again once it is up with one hardware address, and - the answers that are judged - after it has been
	// re-initialised with another (what an earlier answer was must not matter)
	early := func() {
		_, _ = reg.Gather()
		for _, path := range []string{"/_/api/interfaces", "/metrics"} {
			h.ServeHTTP(httptest.NewRecorder(), httptest.NewRequest("GET", path, nil))
		}
	}
	var rella []func()
	if vfStr(v, "lifecycle", "up") == "up" {
		early()
		var ips []system.IP
		for _, x := range vfList(sys, "addrs") {
			m := x.(map[string]any)
			a := netip.MustParseAddr(vfStr(m, "addr", ""))
			ips = append(ips, system.IP{Address: netip.PrefixFrom(a, vfInt(m, "bits", 64)), Deprecated: vfBool(m, "dep", false),
				ManageTemporaryAddresses: vfBool(m, "mt", false), StablePrivacy: vfBool(m, "sp", false), Temporary: vfBool(m, "tmp", false),
				Tentative: vfBool(m, "tent", false), ValidForever: vfBool(m, "forever", false)})
		}
		var routes []system.Route
		for _, x := range vfList(sys, "routes") {
			routes = append(routes, system.Route{Prefix: netip.MustParsePrefix(vfStr(x.(map[string]any), "pfx", "")), Index: 1})
		}
		now := vfObsEpoch.Add(time.Duration(vfInt(sys, "clock", 0)) * time.Second)
		afail, rfail := vfBool(sys, "addrfail", false), vfBool(sys, "routefail", false)
		// While a scrape or an API request is in the middle of building an RA (inside a wildcard plugin's listing),
		// another interface (re)initialises: its plugins are prepared. Neither may block the other.
		reinit := func() {
			var other plugin.LLA
			_ = other.Prepare(&net.Interface{Name: "vfx", Index: 99, HardwareAddr: net.HardwareAddr{2, 0, 0, 0, 0, 99}})
		}
		for idx, ifi := range cfg.Interfaces {
			var hw net.HardwareAddr
			if vfBool(sys, "mac", true) {
				hw = net.HardwareAddr{2, 0, 0, 0, 0, byte(idx + 1)}
			}
			for _, p := range ifi.Plugins {
				switch p := p.(type) {
				case *plugin.LLA:
					_ = p.Prepare(&net.Interface{Name: ifi.Name, Index: idx + 1, HardwareAddr: net.HardwareAddr{2, 0, 0, 0, 7, byte(idx + 1)}})
					lla, ifname, ifidx := p, ifi.Name, idx+1
					rella = append(rella, func() { _ = lla.Prepare(&net.Interface{Name: ifname, Index: ifidx, HardwareAddr: hw}) })
				case *plugin.Prefix:
					p.TimeNow = func() time.Time { return now }
					p.Addrs = func() ([]system.IP, error) {
						reinit()
						if afail {
							return nil, errors.New("vf: listing failed")
						}
						return append([]system.IP(nil), ips...), nil
					}
				case *plugin.RDNSS:
					p.Addrs = func() ([]system.IP, error) {
						reinit()
						if afail {
							return nil, errors.New("vf: listing failed")
						}
						return append([]system.IP(nil), ips...), nil
					}
				case *plugin.Route:
					p.TimeNow = func() time.Time { return now }
					p.Routes = func() ([]system.Route, error) {
						if rfail {
							return nil, errors.New("vf: dump failed")
						}
						return append([]system.Route(nil), routes...), nil
					}
				}
			}
		}
	}

	if len(rella) > 0 {
		early()
		for _, f := range rella {
			f()
		}
	}

	// 1. collection, as a Prometheus scrape performs it
	mfs, gerr := reg.Gather()
	samples := []any{}
	for _, mf := range mfs {
		name := mf.GetName()
		if !strings.HasPrefix(name, "corerad_interface_") && !strings.HasPrefix(name, "corerad_advertiser_") {
			continue
		}
		for _, m := range mf.GetMetric() {
			lab := map[string]string{}
			for _, lp := range m.GetLabel() {
				lab[lp.GetName()] = lp.GetValue()
			}
			val := 0.0
			switch {
			case m.GetGauge() != nil:
				val = m.GetGauge().GetValue()
			case m.GetCounter() != nil:
				val = m.GetCounter().GetValue()
			}
			s := map[string]any{"name": name, "ifi": lab["interface"], "h": []any{}, "bits": 0, "hs": []any{}, "names": []any{}, "details": lab["details"],
				"flag": vfWhole(val), "d": vfSecDur(0)}
			if strings.HasSuffix(name, "_seconds") {
				s["d"] = vfSecDur(val)
				s["flag"] = 0
			}
			if p, ok := lab["prefix"]; ok {
				if pp, err := netip.ParsePrefix(p); err == nil {
					s["h"], s["bits"] = vfGroupsO(pp.Addr()), pp.Bits()
				}
			}
			if p, ok := lab["route"]; ok {
				if pp, err := netip.ParsePrefix(p); err == nil {
					s["h"], s["bits"] = vfGroupsO(pp.Addr()), pp.Bits()
				}
			}
			if sv, ok := lab["servers"]; ok && sv != "" {
				hs := []any{}
				for _, x := range strings.Split(sv, ", ") {
					if a, err := netip.ParseAddr(x); err == nil {
						hs = append(hs, vfGroupsO(a))
					}
				}
				s["hs"] = hs
			}
			if d, ok := lab["domains"]; ok {
				ns := []any{}
				for _, x := range strings.Split(d, ", ") {
					ns = append(ns, x)
				}
				s["names"] = ns
			}
			if strings.HasPrefix(name, "corerad_advertiser_") && !strings.HasSuffix(name, "_seconds") && name != "corerad_advertiser_misconfiguration" &&
				name != "corerad_advertiser_prefix_autonomous" && name != "corerad_advertiser_prefix_on_link" {
				continue // runtime counters (sent / received / errors), not part of the mirrored view
			}
			samples = append(samples, s)
		}
	}
	res["gather"] = map[string]any{"ok": gerr == nil, "samples": samples}

	// 2. HTTP surface
	ctype := ""
	get := func(path string) (int, string) {
		rr := httptest.NewRecorder()
		h.ServeHTTP(rr, httptest.NewRequest("GET", path, nil))
		ctype = rr.Header().Get("Content-Type")
		return rr.Code, rr.Body.String()
	}
	mcode, _ := get("/metrics")
	acode, abody := get("/_/api/interfaces")
	if acode == 200 && !strings.HasPrefix(ctype, "application/json") {
		acode = -200 // answered, but not as JSON
	}
	pcode, _ := get("/debug/pprof/")
	// the pprof handlers that are registered one by one answer when (and only when) the index does (profile and trace
	// would run for seconds: not probed)
	for _, sub := range []string{"/debug/pprof/cmdline", "/debug/pprof/symbol"} {
		if c, _ := get(sub); (c == 404) != (pcode == 404) {
			pcode = -1
		}
	}
	rcode, _ := get("/")
	ncode, _ := get("/nope")
	res["http"] = map[string]any{"metrics": mcode, "api": acode, "pprof": pcode, "root": rcode, "nope": ncode}
	if acode == 200 {
		var body struct {
			Interfaces []struct {
				Interface     string          `json:"interface"`
				Advertise     bool            `json:"advertise"`
				Advertisement json.RawMessage `json:"advertisement"`
			} `json:"interfaces"`
		}
		if err := json.Unmarshal([]byte(abody), &body); err == nil {
			ifs := []any{}
			for _, it := range body.Interfaces {
				ifs = append(ifs, map[string]any{"name": it.Interface, "advertise": it.Advertise,
					"has": len(it.Advertisement) > 0 && string(it.Advertisement) != "null", "ra": vfApiRA(it.Advertisement)})
			}
			res["api"] = ifs
		}
	}
	return res
}

// vfApiRA renders the API's JSON advertisement in the normal form of spec/RA.tla
// (options in the RA's own order; lifetimes are whole seconds in the API).
func vfApiRA(raw json.RawMessage) map[string]any {
	out := map[string]any{"hl": 0, "m": false, "o": false, "pref": "", "life": vfSecDur(0), "reach": vfSecDur(0), "retrans": vfSecDur(0), "opts": []any{}}
	if len(raw) == 0 || string(raw) == "null" {
		return out
	}
	var a struct {
		HL      int    `json:"current_hop_limit"`
		M       bool   `json:"managed_configuration"`
		O       bool   `json:"other_configuration"`
		Pref    string `json:"router_selection_preference"`
		Life    int    `json:"router_lifetime_seconds"`
		Reach   int    `json:"reachable_time_milliseconds"`
		Retrans int    `json:"retransmit_timer_milliseconds"`
		Options struct {
			DNSSL []struct {
				Life  int      `json:"lifetime_seconds"`
				Names []string `json:"domain_names"`
			} `json:"dnssl"`
			MTU      int `json:"mtu"`
			Prefixes []struct {
				Prefix string `json:"prefix"`
				OnLink bool   `json:"on_link"`
				Auto   bool   `json:"autonomous_address_autoconfiguration"`
				Valid  int    `json:"valid_lifetime_seconds"`
				Pref   int    `json:"preferred_lifetime_seconds"`
			} `json:"prefixes"`
			RDNSS []struct {
				Life    int      `json:"lifetime_seconds"`
				Servers []string `json:"servers"`
			} `json:"rdnss"`
			Routes []struct {
				Prefix string `json:"prefix"`
				Pref   string `json:"preference"`
				Life   int    `json:"route_lifetime_seconds"`
			} `json:"routes"`
			LLA    string `json:"source_link_layer_address"`
			CP     string `json:"captive_portal"`
			PREF64 []struct {
				Prefix string `json:"prefix"`
				Life   int    `json:"lifetime_seconds"`
			} `json:"pref64"`
		} `json:"options"`
	}
	if err := json.Unmarshal(raw, &a); err != nil {
		return out
	}
	sec := func(n int) map[string]any { return vfSecDur(float64(n)) }
	opts := []any{}
	for _, p := range a.Options.Prefixes {
		pp, _ := netip.ParsePrefix(p.Prefix)
		opts = append(opts, map[string]any{"k": "prefix", "h": vfGroupsO(pp.Addr()), "bits": pp.Bits(), "onlink": p.OnLink, "auto": p.Auto,
			"valid": sec(p.Valid), "pref": sec(p.Pref)})
	}
	for _, r := range a.Options.Routes {
		pp, _ := netip.ParsePrefix(r.Prefix)
		opts = append(opts, map[string]any{"k": "route", "h": vfGroupsO(pp.Addr()), "bits": pp.Bits(), "pref": r.Pref, "life": sec(r.Life)})
	}
	for _, r := range a.Options.RDNSS {
		sh := []any{}
		for _, s := range r.Servers {
			if ad, err := netip.ParseAddr(s); err == nil {
				sh = append(sh, vfGroupsO(ad))
			}
		}
		opts = append(opts, map[string]any{"k": "rdnss", "life": sec(r.Life), "sh": sh})
	}
	for _, d := range a.Options.DNSSL {
		ns := []any{}
		for _, n := range d.Names {
			ns = append(ns, n)
		}
		opts = append(opts, map[string]any{"k": "dnssl", "life": sec(d.Life), "names": ns})
	}
	if a.Options.MTU != 0 {
		opts = append(opts, map[string]any{"k": "mtu", "mtu": a.Options.MTU})
	}
	if a.Options.LLA != "" {
		opts = append(opts, map[string]any{"k": "lla", "dir": "source", "addr": a.Options.LLA})
	}
	if a.Options.CP != "" {
		opts = append(opts, map[string]any{"k": "cp", "uri": a.Options.CP})
	}
	for _, p := range a.Options.PREF64 {
		opts = append(opts, map[string]any{"k": "pref64", "pfx": p.Prefix, "life": sec(p.Life)})
	}
	out["hl"], out["m"], out["o"], out["pref"] = a.HL, a.M, a.O, a.Pref
	out["life"] = sec(a.Life)
	out["reach"] = vfDur(time.Duration(a.Reach) * time.Millisecond)
	out["retrans"] = vfDur(time.Duration(a.Retrans) * time.Millisecond)
	out["opts"] = opts
	return out
}
