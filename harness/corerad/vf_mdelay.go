package corerad

// C05, function level: the real multicastDelay is called with a scripted
// random source so that chosen draws (0, 1 ns, middle, range-1 ns, random) are
// exercised for every (index, min, max) vector.

import (
	"math/rand"
	"testing"
	"time"
)

type vfScripted struct{ v int64 }

func (s *vfScripted) Int63() int64 { return s.v }
func (s *vfScripted) Seed(int64)   {}

func TestVF_MDelay(t *testing.T) {
	in, out := vfEnv("VF_IN", ""), vfEnv("VF_OUT", "")
	if in == "" || out == "" {
		t.Skip("VF_IN / VF_OUT not set")
	}
	rec := vfNewRec(out)
	defer rec.close()
	rnd := rand.New(rand.NewSource(int64(vfEnvInt("VERIF_SEED", 1))))
	for _, v := range vfReadLines(in) {
		inp := vfMap(v, "in")
		mn := time.Duration(vfInt(inp, "min", 0)) * time.Millisecond
		mx := time.Duration(vfInt(inp, "max", 0)) * time.Millisecond
		i := vfInt(inp, "i", 0)
		waits := []any{} // (never null in the trace, also when the first call panics)
		panicked := false
		func() {
			defer func() {
				if r := recover(); r != nil {
					panicked = true
				}
			}()
			span := int64(mx - mn)
			draws := []int64{0}
			if span > 0 {
				draws = []int64{0, 1, span / 2, span - 1, 499_999_999 % span, 500_000_000 % span,
					rnd.Int63n(span), rnd.Int63n(span), rnd.Int63n(span)}
			}
			for _, d := range draws {
				w := multicastDelay(rand.New(&vfScripted{v: d}), i, mn, mx)
				ms := int(w / time.Millisecond)
				if w%time.Millisecond != 0 {
					ms = -1
				}
				waits = append(waits, ms)
			}
		}()
		rec.raw(map[string]any{"kind": "c05", "id": vfStr(v, "id", ""), "in": inp,
			"out": map[string]any{"waits": waits, "panic": panicked}})
	}
}
