package corerad

// C05, function level: the real multicastDelay is called with a scripted
// random source so that chosen draws (0, 1 ns, middle, range-1 ns, random) are
// exercised for every (index, min, max) vector.

import (
	"context"
	"fmt"
	"math/rand"
	"net/netip"
	"testing"
	"time"

	"github.com/mdlayher/corerad/internal/config"
)

// vfLoopVector drives the real unsolicited-RA loop (Advertiser.multicast) against a consumer that takes its time to
// accept some of the requests ("stalls": request index -> milliseconds), under virtual time, and records when each
// request was handed over. Every wait is chosen after the hand-over, so two consecutive hand-overs are at least
// MinRtrAdvInterval apart however long the previous one took; the loop never spins.
func vfLoopVector(t *testing.T, rec *vfRec, v, inp map[string]any) {
	var times []any
	panicked := false
	res := vfBubble(t, func(t *testing.T) {
		defer func() {
			if r := recover(); r != nil {
				panicked = true
			}
		}()
		mn := time.Duration(vfInt(inp, "min", 0)) * time.Millisecond
		mx := time.Duration(vfInt(inp, "max", 0)) * time.Millisecond
		a := NewAdvertiser(NewContext(nil, nil, nil), config.Interface{Name: "vf0", MinInterval: mn, MaxInterval: mx}, nil, nil, func() bool { return false })
		ctx, cancel := context.WithCancel(context.Background())
		ipC := make(chan netip.Addr)
		done := make(chan struct{})
		go func() { defer close(done); a.multicast(ctx, ipC) }()
		stalls := vfMap(inp, "stalls")
		start := time.Now()
		for k := 0; k < vfInt(inp, "n", 6); k++ {
			if ms := vfInt(stalls, fmt.Sprint(k), 0); ms > 0 {
				time.Sleep(time.Duration(ms) * time.Millisecond)
			}
			// (a loop that goes on choosing waits without ever asking again would let virtual time run for ever)
			select {
			case <-ipC:
			case <-time.After(4*mx + time.Hour):
				k = 1 << 30
				continue
			}
			times = append(times, int(time.Since(start)/time.Millisecond))
		}
		cancel()
		<-done
	})
	if res != "" {
		panicked = true
	}
	if times == nil {
		times = []any{}
	}
	rec.raw(map[string]any{"kind": "c05loop", "id": vfStr(v, "id", ""), "in": inp, "out": map[string]any{"times": times, "panic": panicked}})
}

type vfScripted struct{ v int64 }

func (s *vfScripted) Int63() int64 { return s.v }
func (s *vfScripted) Seed(int64)   {}

func TestVF_MDelay(t *testing.T) {
	in, out := vfEnv("VF_IN", ""), vfEnv("VF_OUT", "")
	if in == "" || out == "" {
		t.Skip("VF_IN / VF_OUT not set")
	}
	rec := vfNewRec(out)
	defer rec.close()
	rnd := rand.New(rand.NewSource(int64(vfEnvInt("VERIF_SEED", 1))))
	for _, v := range vfReadLines(in) {
		inp := vfMap(v, "in")
		if vfStr(v, "kind", "c05") == "c05loop" {
			vfLoopVector(t, rec, v, inp)
			continue
		}
		mn := time.Duration(vfInt(inp, "min", 0)) * time.Millisecond
		mx := time.Duration(vfInt(inp, "max", 0)) * time.Millisecond
		i := vfInt(inp, "i", 0)
		waits := []any{} // (never null in the trace, also when the first call panics)
		panicked := false
		func() {
			defer func() {
				if r := recover(); r != nil {
					panicked = true
				}
			}()
			span := int64(mx - mn)
			draws := []int64{0}
			if span > 0 {
				draws = []int64{0, 1, span / 2, span - 1, 499_999_999 % span, 500_000_000 % span,
					rnd.Int63n(span), rnd.Int63n(span), rnd.Int63n(span)}
			}
			for _, d := range draws {
				w := multicastDelay(rand.New(&vfScripted{v: d}), i, mn, mx)
				ms := int(w / time.Millisecond)
				if w%time.Millisecond != 0 {
					ms = -1
				}
				waits = append(waits, ms)
			}
		}()
		rec.raw(map[string]any{"kind": "c05", "id": vfStr(v, "id", ""), "in": inp,
			"out": map[string]any{"waits": waits, "panic": panicked}})
	}
}
