package corerad

// Boundary stubs (Conn, State, metrics backend, logger writer) that record one
// event per call and can hold a call open as a scheduler gate. Injected into
// package corerad by `go test -overlay`; see /verif/DESIGN.md section 2.2.

import (
	"errors"
	"fmt"
	"net"
	"net/netip"
	"os"
	"sort"
	"strings"
	"sync"
	"syscall"
	"time"

	"github.com/mdlayher/corerad/internal/system"
	"github.com/mdlayher/metricslite"
	"github.com/mdlayher/ndp"
	"golang.org/x/net/ipv6"
)

// vfTimeout is a net.Error timeout.
type vfTimeout struct{}

func (vfTimeout) Error() string   { return "vf: i/o timeout" }
func (vfTimeout) Timeout() bool   { return true }
func (vfTimeout) Temporary() bool { return true }

var _ net.Error = vfTimeout{}

func vfErrClass(class string) error {
	switch class {
	case "sys":
		return &os.SyscallError{Syscall: "vfcall", Err: syscall.ENOBUFS}
	case "unreach": // the destination cannot be reached (off-link / spoofed solicitor)
		return &os.SyscallError{Syscall: "vfcall", Err: syscall.EHOSTUNREACH}
	case "perm":
		return &os.SyscallError{Syscall: "vfcall", Err: syscall.EPERM}
	case "permplain":
		return os.ErrPermission
	case "notexist":
		return &os.PathError{Op: "open", Path: "/proc/sys/vf", Err: syscall.ENOENT}
	case "lnr":
		return fmt.Errorf("vf: %w", system.ErrLinkNotReady)
	case "link":
		return system.ErrLinkChange
	case "timeout":
		return vfTimeout{}
	case "canceled":
		return fmt.Errorf("vf: canceled")
	}
	return errors.New("vf: other error")
}

// vfWorld is everything outside the code under test for one scenario.
type vfWorld struct {
	rec    *vfRec
	fullRA bool // include the abstract RA in wcall events

	mu      sync.Mutex
	gates   map[string]chan struct{} // "w|<dst>", "fwd|<ifi>", "dial", "done"
	failw   map[string]string        // dst -> error class for WriteTo
	cur     *vfConn                  // latest dialled connection (nil when none)
	nconn   int
	fwd     map[string]bool
	auto    map[string]bool
	fwdErr  map[string]string // ifi -> error class for IPv6Forwarding
	autoErr map[string]string // "get|<ifi>" / "set|<ifi>" / "restore|<ifi>"
	nset    map[string]int
}

func vfNewWorld(rec *vfRec) *vfWorld {
	return &vfWorld{rec: rec, gates: map[string]chan struct{}{}, failw: map[string]string{},
		fwd: map[string]bool{}, auto: map[string]bool{}, fwdErr: map[string]string{},
		autoErr: map[string]string{}, nset: map[string]int{}}
}

func (w *vfWorld) hold(key string) {
	w.mu.Lock()
	defer w.mu.Unlock()
	if _, ok := w.gates[key]; !ok {
		w.gates[key] = make(chan struct{})
	}
}

func (w *vfWorld) release(key string) {
	w.mu.Lock()
	defer w.mu.Unlock()
	if g, ok := w.gates[key]; ok {
		close(g)
		delete(w.gates, key)
	}
}

func (w *vfWorld) heldKeys() []string {
	w.mu.Lock()
	defer w.mu.Unlock()
	var ks []string
	for k := range w.gates {
		ks = append(ks, k)
	}
	sort.Strings(ks)
	return ks
}

func (w *vfWorld) releaseAll() {
	w.mu.Lock()
	defer w.mu.Unlock()
	for k, g := range w.gates {
		close(g)
		delete(w.gates, k)
	}
}

// pass blocks while the gate key is held.
func (w *vfWorld) pass(key string) {
	w.mu.Lock()
	g := w.gates[key]
	w.mu.Unlock()
	if g != nil {
		<-g
	}
}

// ---- Conn ----

type vfMsg struct {
	kind string
	m    ndp.Message
	hl   int
	from netip.Addr
	err  error
	tag  string
}

type vfConn struct {
	w      *vfWorld
	ifi    string
	k      int
	inbox  chan vfMsg
	dlC    chan struct{}
	dlOnce sync.Once
}

func (w *vfWorld) newConn(ifi string) *vfConn {
	w.mu.Lock()
	defer w.mu.Unlock()
	w.nconn++
	c := &vfConn{w: w, ifi: ifi, k: w.nconn, inbox: make(chan vfMsg, 1<<14), dlC: make(chan struct{})}
	w.cur = c
	return c
}

func vfSrcName(a netip.Addr) string {
	a = a.WithZone("")
	if a.IsUnspecified() {
		return "unspec"
	}
	return a.WithZone("").String()
}

func vfDstName(a netip.Addr) string {
	if a == netip.IPv6LinkLocalAllNodes() {
		return "allnodes"
	}
	if a.IsMulticast() {
		return "mc:" + a.String()
	}
	return a.String()
}

func (c *vfConn) ReadFrom() (ndp.Message, *ipv6.ControlMessage, netip.Addr, error) {
	c.w.rec.emit("rcall", "ifi", c.ifi, "k", c.k)
	// An expired deadline wins over queued data, as on a real socket.
	select {
	case <-c.dlC:
		c.w.rec.emit("in", "ifi", c.ifi, "k", c.k, "kind", "deadline", "src", "", "hl", 0, "tag", "")
		return nil, nil, netip.Addr{}, vfTimeout{}
	default:
	}
	select {
	case m := <-c.inbox:
		if ra, ok := m.m.(*ndp.RouterAdvertisement); ok && c.w.fullRA {
			c.w.rec.emit("in", "ifi", c.ifi, "k", c.k, "kind", m.kind, "src", vfSrcName(m.from), "hl", m.hl, "tag", m.tag, "ra", vfAbsRA(ra))
		} else {
			c.w.rec.emit("in", "ifi", c.ifi, "k", c.k, "kind", m.kind, "src", vfSrcName(m.from), "hl", m.hl, "tag", m.tag)
		}
		if m.err != nil {
			return nil, nil, netip.Addr{}, m.err
		}
		return m.m, &ipv6.ControlMessage{HopLimit: m.hl}, m.from, nil
	case <-c.dlC:
		c.w.rec.emit("in", "ifi", c.ifi, "k", c.k, "kind", "deadline", "src", "", "hl", 0, "tag", "")
		return nil, nil, netip.Addr{}, vfTimeout{}
	}
}

func (c *vfConn) SetReadDeadline(t time.Time) error {
	c.w.rec.emit("deadline", "ifi", c.ifi, "k", c.k)
	if t.Equal(deadlineNow) || (!t.IsZero() && t.Before(time.Now())) {
		c.dlOnce.Do(func() { close(c.dlC) })
	}
	return nil
}

func (c *vfConn) WriteTo(m ndp.Message, _ *ipv6.ControlMessage, dst netip.Addr) error {
	d := vfDstName(dst)
	life, body, typ := -1, "", "other"
	var abs map[string]any
	if ra, ok := m.(*ndp.RouterAdvertisement); ok {
		typ = "ra"
		life = int(ra.RouterLifetime / time.Second)
		body = vfBodyDigest(ra)
		abs = vfAbsRA(ra)
	}
	if !c.w.fullRA {
		abs = nil
	}
	c.w.rec.emit("wcall", "ifi", c.ifi, "k", c.k, "dst", d, "mc", dst.IsMulticast(), "type", typ, "life", life, "body", body, "ra", abs)
	c.w.pass("w|" + d)
	c.w.mu.Lock()
	class := c.w.failw[d]
	if class == "" {
		class = c.w.failw["*"]
	}
	c.w.mu.Unlock()
	if class != "" {
		c.w.rec.emit("wret", "ifi", c.ifi, "k", c.k, "dst", d, "mc", dst.IsMulticast(), "ok", false, "class", class)
		return vfErrClass(class)
	}
	c.w.rec.emit("wret", "ifi", c.ifi, "k", c.k, "dst", d, "mc", dst.IsMulticast(), "ok", true, "class", "")
	return nil
}

// ---- State ----

type vfState struct{ w *vfWorld }

var _ system.State = vfState{}

func (s vfState) IPv6Forwarding(ifi string) (bool, error) {
	s.w.pass("fwd|" + ifi)
	s.w.mu.Lock()
	v, class := s.w.fwd[ifi], s.w.fwdErr[ifi]
	s.w.mu.Unlock()
	if class != "" {
		s.w.rec.emit("fwd", "ifi", ifi, "val", false, "ok", false, "class", class)
		return false, vfErrClass(class)
	}
	s.w.rec.emit("fwd", "ifi", ifi, "val", v, "ok", true)
	return v, nil
}

func (s vfState) IPv6Autoconf(ifi string) (bool, error) {
	s.w.mu.Lock()
	v, class := s.w.auto[ifi], s.w.autoErr["get|"+ifi]
	s.w.mu.Unlock()
	if class != "" {
		s.w.rec.emit("auto_get", "ifi", ifi, "val", false, "res", class)
		return false, vfErrClass(class)
	}
	s.w.rec.emit("auto_get", "ifi", ifi, "val", v, "res", "ok")
	return v, nil
}

func (s vfState) SetIPv6Autoconf(ifi string, enable bool) error {
	s.w.mu.Lock()
	class := s.w.autoErr["set|"+ifi]
	if class == "" {
		s.w.auto[ifi] = enable
	}
	s.w.mu.Unlock()
	if class != "" {
		s.w.rec.emit("auto_set", "ifi", ifi, "val", enable, "res", class)
		return vfErrClass(class)
	}
	s.w.rec.emit("auto_set", "ifi", ifi, "val", enable, "res", "ok")
	return nil
}

// ---- metrics backend ----

// vfMetrics implements metricslite.Interface, records every update as an event
// and runs the const scrape only when the driver asks for it.
type vfMetrics struct {
	onUpdate func(name string, labels []string, v float64) // capture instead of emitting events
	w        *vfWorld
	mu       sync.Mutex
	vals     map[string]float64
	consts   map[string][]string
	scrape   metricslite.ScrapeFunc
}

var _ metricslite.Interface = &vfMetrics{}

func vfNewMetrics(w *vfWorld) *vfMetrics {
	return &vfMetrics{w: w, vals: map[string]float64{}, consts: map[string][]string{}}
}

func vfKey(name string, labels []string) string { return name + "{" + strings.Join(labels, "|") + "}" }

func (m *vfMetrics) Counter(name, _ string, _ ...string) metricslite.Counter {
	return func(v float64, labels ...string) {
		m.mu.Lock()
		k := vfKey(name, labels)
		m.vals[k] += v
		m.mu.Unlock()
		if m.onUpdate != nil {
			m.onUpdate(name, labels, v)
			return
		}
		m.w.rec.emit("cnt", "name", name, "labels", strings.Join(labels, "|"), "v", v, "kind", "counter")
	}
}

func (m *vfMetrics) Gauge(name, _ string, _ ...string) metricslite.Gauge {
	return func(v float64, labels ...string) {
		m.mu.Lock()
		m.vals[vfKey(name, labels)] = v
		m.mu.Unlock()
		if m.onUpdate != nil {
			m.onUpdate(name, labels, v)
			return
		}
		m.w.rec.emit("cnt", "name", name, "labels", strings.Join(labels, "|"), "v", v, "kind", "gauge")
	}
}

func (m *vfMetrics) ConstCounter(name, _ string, labels ...string) { m.consts[name] = labels }
func (m *vfMetrics) ConstGauge(name, _ string, labels ...string)   { m.consts[name] = labels }
func (m *vfMetrics) OnConstScrape(s metricslite.ScrapeFunc)        { m.scrape = s }

// snapshot returns all non-const values in a stable order.
func (m *vfMetrics) snapshot() map[string]any {
	m.mu.Lock()
	defer m.mu.Unlock()
	out := map[string]any{}
	for k, v := range m.vals {
		out[k] = v
	}
	return out
}

// doScrape runs the const scrape as a Prometheus collection would and returns
// the samples (sorted "name{labels}=value") and the error, recovering a panic.
func (m *vfMetrics) doScrape() (samples []string, errs string, panicked string) {
	defer func() {
		if r := recover(); r != nil {
			panicked = fmt.Sprint(r)
		}
	}()
	fns := map[string]func(float64, ...string){}
	var mu sync.Mutex
	for name := range m.consts {
		name := name
		fns[name] = func(v float64, labels ...string) {
			mu.Lock()
			samples = append(samples, fmt.Sprintf("%s{%s}=%g", name, strings.Join(labels, "|"), v))
			mu.Unlock()
		}
	}
	if err := m.scrape(fns); err != nil {
		errs = err.Error()
	}
	sort.Strings(samples)
	return samples, errs, ""
}

// ---- logger writer ----

type vfLogWriter struct{ w *vfWorld }

func (l vfLogWriter) Write(p []byte) (int, error) {
	l.w.rec.emit("log", "line", strings.TrimRight(string(p), "\n"))
	return len(p), nil
}
