package corerad

// C12: (own RA, received RA) vectors through verifyRAs and through
// Advertiser.handle (counters, log lines, hook).

import (
	"bytes"
	"errors"
	"fmt"
	"log"
	"net"
	"net/netip"
	"strings"
	"testing"
	"time"

	"github.com/mdlayher/corerad/internal/config"
	"github.com/mdlayher/corerad/internal/plugin"
	"github.com/mdlayher/corerad/internal/system"
	"github.com/mdlayher/ndp"
	"golang.org/x/net/ipv6"
)

func vfSecs(n int) time.Duration {
	if n < 0 {
		return ndp.Infinity
	}
	return time.Duration(n) * time.Second
}

func vfPrefOf(s string) ndp.Preference {
	switch s {
	case "low":
		return ndp.Low
	case "high":
		return ndp.High
	}
	return ndp.Medium
}

func vfBuildOpts(list []any) []ndp.Option {
	var out []ndp.Option
	for _, x := range list {
		m := x.(map[string]any)
		switch vfStr(m, "k", "") {
		case "mtu":
			out = append(out, ndp.NewMTU(uint32(vfInt(m, "mtu", 1500))))
		case "prefix":
			p := netip.MustParsePrefix(vfStr(m, "pfx", ""))
			out = append(out, &ndp.PrefixInformation{PrefixLength: uint8(p.Bits()), OnLink: vfBool(m, "onlink", true),
				AutonomousAddressConfiguration: vfBool(m, "auto", true), ValidLifetime: vfSecs(vfInt(m, "valid", 86400)),
				PreferredLifetime: vfSecs(vfInt(m, "pref", 14400)), Prefix: p.Addr()})
		case "route":
			p := netip.MustParsePrefix(vfStr(m, "pfx", ""))
			out = append(out, &ndp.RouteInformation{PrefixLength: uint8(p.Bits()), Preference: vfPrefOf(vfStr(m, "pref", "medium")),
				RouteLifetime: vfSecs(vfInt(m, "life", 86400)), Prefix: p.Addr()})
		case "rdnss":
			var ss []netip.Addr
			for _, s := range vfList(m, "servers") {
				ss = append(ss, netip.MustParseAddr(s.(string)))
			}
			out = append(out, &ndp.RecursiveDNSServer{Lifetime: vfSecs(vfInt(m, "life", 1800)), Servers: ss})
		case "dnssl":
			var ss []string
			for _, s := range vfList(m, "names") {
				ss = append(ss, s.(string))
			}
			out = append(out, &ndp.DNSSearchList{Lifetime: vfSecs(vfInt(m, "life", 1800)), DomainNames: ss})
		case "cp":
			out = append(out, &ndp.CaptivePortal{URI: vfStr(m, "uri", "")})
		case "lla":
			hw, _ := net.ParseMAC(vfStr(m, "addr", "02:00:00:00:00:01"))
			out = append(out, &ndp.LinkLayerAddress{Direction: ndp.Source, Addr: hw})
		case "pref64":
			out = append(out, &ndp.PREF64{Prefix: netip.MustParsePrefix(vfStr(m, "pfx", "64:ff9b::/96")), Lifetime: vfSecs(vfInt(m, "life", 1800))})
		}
	}
	return out
}

func vfBuildRA(spec map[string]any) *ndp.RouterAdvertisement {
	return &ndp.RouterAdvertisement{
		CurrentHopLimit: uint8(vfInt(spec, "hl", 64)), ManagedConfiguration: vfBool(spec, "m", false),
		OtherConfiguration: vfBool(spec, "o", false), RouterSelectionPreference: vfPrefOf(vfStr(spec, "rpref", "medium")),
		RouterLifetime: vfSecs(vfInt(spec, "life", 1800)), ReachableTime: time.Duration(vfInt(spec, "reach", 0)) * time.Millisecond,
		RetransmitTimer: time.Duration(vfInt(spec, "retrans", 0)) * time.Millisecond, Options: vfBuildOpts(vfList(spec, "opts")),
	}
}

// vfOptsPlugin appends freshly built options: lets a config.Interface produce
// any "own" RA.
type vfOptsPlugin struct{ spec []any }

var _ plugin.Plugin = &vfOptsPlugin{}

func (*vfOptsPlugin) Name() string                 { return "vf" }
func (*vfOptsPlugin) String() string               { return "vf" }
func (*vfOptsPlugin) Prepare(*net.Interface) error { return nil }
func (p *vfOptsPlugin) Apply(ra *ndp.RouterAdvertisement) error {
	ra.Options = append(ra.Options, vfBuildOpts(p.spec)...)
	return nil
}

type vfNullConn struct{}

func (vfNullConn) ReadFrom() (ndp.Message, *ipv6.ControlMessage, netip.Addr, error) {
	return nil, nil, netip.Addr{}, errors.New("vf: not a reading connection")
}
func (vfNullConn) SetReadDeadline(time.Time) error                               { return nil }
func (vfNullConn) WriteTo(ndp.Message, *ipv6.ControlMessage, netip.Addr) error { return nil }

func vfRoundTrip(ra *ndp.RouterAdvertisement) (*ndp.RouterAdvertisement, error) {
	b, err := ndp.MarshalMessage(ra)
	if err != nil {
		return nil, err
	}
	m, err := ndp.ParseMessage(b)
	if err != nil {
		return nil, err
	}
	return m.(*ndp.RouterAdvertisement), nil
}

func TestVF_Verify(t *testing.T) {
	in, out := vfEnv("VF_IN", ""), vfEnv("VF_OUT", "")
	if in == "" || out == "" {
		t.Skip("VF_IN / VF_OUT not set")
	}
	rec := vfNewRec(out)
	defer rec.close()
	for _, v := range vfReadLines(in) {
		inp := vfMap(v, "in")
		res := map[string]any{"panic": false, "handled": false, "problems": []any{}, "counted": []any{}, "logged": 0, "hook": 0,
			"own": map[string]any{}, "theirs": map[string]any{}}
		func() {
			defer func() {
				if r := recover(); r != nil {
					res["panic"] = true
				}
			}()
			ownSpec := vfMap(inp, "own")
			cfg := config.Interface{Name: "vf0", Advertise: true, HopLimit: uint8(vfInt(ownSpec, "hl", 64)),
				Managed: vfBool(ownSpec, "m", false), OtherConfig: vfBool(ownSpec, "o", false),
				ReachableTime:   time.Duration(vfInt(ownSpec, "reach", 0)) * time.Millisecond,
				RetransmitTimer: time.Duration(vfInt(ownSpec, "retrans", 0)) * time.Millisecond,
				DefaultLifetime: vfSecs(vfInt(ownSpec, "life", 1800)), Preference: vfPrefOf(vfStr(ownSpec, "rpref", "medium")),
				MinInterval: 200 * time.Second, MaxInterval: 600 * time.Second,
				Plugins: []plugin.Plugin{&vfOptsPlugin{spec: vfList(ownSpec, "opts")}}}
			own, _, err := cfg.RouterAdvertisement(true)
			if err != nil {
				panic("vf: " + err.Error())
			}
			var theirs *ndp.RouterAdvertisement
			if vfBool(inp, "selfwire", false) {
				theirs, err = vfRoundTrip(own)
			} else {
				theirs = vfBuildRA(vfMap(inp, "theirs"))
				if vfBool(inp, "wire", false) {
					theirs, err = vfRoundTrip(theirs)
				}
			}
			if err != nil {
				panic("vf: " + err.Error())
			}
			res["own"], res["theirs"] = vfAbsRA(own), vfAbsRA(theirs)
			var ps []any
			for _, p := range verifyRAs(own, theirs) {
				ps = append(ps, []any{p.Field, p.Details})
			}
			if ps != nil {
				res["problems"] = ps
			}

			// The same comparison through the advertiser's receive path.
			var counted []any
			vm := vfNewMetrics(nil)
			vm.onUpdate = func(name string, labels []string, v float64) {
				if name == "corerad_advertiser_inconsistencies_total" && len(labels) == 3 {
					if v != 1 { // "counted once": an increment by anything but one is not a count of this inconsistency
						counted = append(counted, []any{fmt.Sprintf("increment-of-%v:%s", v, labels[2]), labels[1]})
						return
					}
					counted = append(counted, []any{labels[2], labels[1]})
				}
			}
			var logbuf bytes.Buffer
			st := system.TestState{Forwarding: true}
			cctx := NewContext(log.New(&logbuf, "", 0), NewMetrics(vm, "vf", time.Time{}, st, nil), st)
			ad := NewAdvertiser(cctx, cfg, nil, nil, func() bool { return false })
			hooks := 0
			ad.OnInconsistentRA = func(_, _ *ndp.RouterAdvertisement) { hooks++ }
			if prev, ok := inp["prev"].(map[string]any); ok {
				// a running advertiser has transmitted before: here while its dynamic content (wildcard expansion,
				// count-down) was in an earlier state. The comparison is with what it would send now.
				pl := cfg.Plugins[0].(*vfOptsPlugin)
				pl.spec = vfList(prev, "opts")
				_ = ad.send(vfNullConn{}, netip.IPv6LinkLocalAllNodes(), cfg)
				pl.spec = vfList(ownSpec, "opts")
			}
			if _, err := ad.handle(theirs, netip.MustParseAddr("fe80::99")); err != nil {
				panic("vf: " + err.Error())
			}
			res["handled"] = true
			if counted != nil {
				res["counted"] = counted
			}
			// "logged": lines that name one of the reported fields (whatever else the wording is)
			fields := map[string]bool{}
			for _, c := range counted {
				fields[c.([]any)[0].(string)] = true
			}
			logged := 0
			for _, ln := range strings.Split(logbuf.String(), "\n") {
				for f := range fields {
					if strings.Contains(ln, f) {
						logged++
						break
					}
				}
			}
			res["logged"] = logged
			res["hook"] = hooks
		}()
		rec.raw(map[string]any{"kind": "c12", "id": vfStr(v, "id", ""), "in": inp, "out": res})
	}
}
