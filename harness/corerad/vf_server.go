package corerad

// C20: the real Server.Serve with stub tasks (behaviours scripted from
// spec/Server.tla), the real signal task and terminator, and a real
// unix-datagram notify socket; BuildTasks over configuration mixes; the HTTP
// listener retry loop serve() under virtual time.

import (
	"context"
	"errors"
	"fmt"
	"io"
	"log"
	"net"
	"net/http"
	"os"
	"path/filepath"
	"regexp"
	"strconv"
	"strings"
	"sync"
	"sync/atomic"
	"syscall"
	"testing"
	"testing/synctest"
	"time"

	"github.com/mdlayher/corerad/internal/config"
	"github.com/mdlayher/sdnotify"
)

type vfCount struct {
	mu sync.Mutex
	n  int
}

type vfTask struct {
	i      int
	beh    string
	readyC chan struct{}
	cmd    chan string
	rel    chan struct{}
	emit   func(m map[string]any)
	term   func() bool
	saw    *atomic.Int32 // tasks that have observed cancellation
	wrapc  bool          // "fail" returns an error wrapping context.Canceled
	rdy    sync.Once
}

func (t *vfTask) Ready() <-chan struct{} { return t.readyC }
func (t *vfTask) String() string         { return fmt.Sprintf("vf-task-%d", t.i) }
func (t *vfTask) Run(ctx context.Context) error {
	t.emit(map[string]any{"ev": "trun", "i": t.i})
	for {
		select {
		case <-ctx.Done():
			t.saw.Add(1)
			t.emit(map[string]any{"ev": "tsaw", "i": t.i})
			t.emit(map[string]any{"ev": "tobs", "i": t.i, "term": t.term()})
			if t.beh == "slow" {
				t.emit(map[string]any{"ev": "hold", "i": t.i})
				<-t.rel
			}
			t.emit(map[string]any{"ev": "texit", "i": t.i})
			return nil
		case c := <-t.cmd:
			switch c {
			case "ready":
				// logged before the effect: the announcement can only follow the close, so a "nready" line can never
				// overtake the "tready" line of a task that really was ready first
				t.emit(map[string]any{"ev": "tready", "i": t.i})
				t.rdy.Do(func() { close(t.readyC) })
			case "fail":
				t.emit(map[string]any{"ev": "tfail", "i": t.i})
				t.emit(map[string]any{"ev": "texit", "i": t.i})
				if t.wrapc { // a fatal error that happens to wrap a cancellation of some inner context of the task
					return fmt.Errorf("vf: task %d failed: %w", t.i, context.Canceled)
				}
				return fmt.Errorf("vf: task %d failed", t.i)
			case "early":
				t.emit(map[string]any{"ev": "tearly", "i": t.i})
				t.emit(map[string]any{"ev": "texit", "i": t.i})
				return nil
			}
		}
	}
}

// the failing stub task is recognised by its own error text, which Serve has to pass on whatever it wraps around it
var vfTaskRe = regexp.MustCompile(`vf: task (\d+) failed`)

func TestVF_Server(t *testing.T) {
	in, out := vfEnv("VF_IN", ""), vfEnv("VF_OUT", "")
	if in == "" || out == "" {
		t.Skip("VF_IN / VF_OUT not set")
	}
	rec := vfNewRec(out)
	defer rec.close()
	dir := t.TempDir()
	for n, sc := range vfReadLines(in) {
		switch vfStr(sc, "kind", "serve") {
		case "serve":
			if vfBool(sc, "bubble", false) {
				// virtual time, no notify socket: for everything that depends on how long a task takes to stop
				if res := vfBubble(t, func(t *testing.T) { vfServeScenario(rec, sc, "") }); res != "" {
					// goroutines of Serve were still blocked when the scenario ended (or something panicked)
					rec.raw(map[string]any{"ev": "hang", "msg": res})
				}
			} else {
				vfServeScenario(rec, sc, filepath.Join(dir, fmt.Sprintf("n%d.sock", n)))
			}
		case "build":
			vfBuildScenario(rec, sc)
		case "retry":
			vfRetryScenario(t, rec, sc)
		case "http":
			vfHttpScenario(rec, sc)
		case "wtask":
			// the link watcher task around Watcher.Watch: unavailable on this OS (not-exist) is not an error
			var werr error
			switch vfStr(sc, "res", "nil") {
			case "notexist":
				werr = fmt.Errorf("vf: %w", os.ErrNotExist)
			case "other":
				werr = errors.New("vf: netlink failed")
			}
			wt := &watcherTask{watch: func(context.Context) error { return werr }, ll: log.New(io.Discard, "", 0)}
			err := wt.Run(context.Background())
			select {
			case <-wt.Ready():
			default:
				err = errors.New("vf: not ready")
			}
			rec.raw(map[string]any{"ev": "reset", "id": vfStr(sc, "id", ""), "n": 0})
			rec.raw(map[string]any{"ev": "wtask", "res": vfStr(sc, "res", "nil"), "err": err != nil})
		}
	}
}

func vfServeScenario(rec *vfRec, sc map[string]any, sockPath string) {
	var cnt vfCount
	emit := func(m map[string]any) {
		cnt.mu.Lock()
		cnt.n++
		cnt.mu.Unlock()
		rec.raw(m)
	}
	// Quiescence is decided from the scheduler's own view, not from elapsed time: every other goroutine is parked
	// (channel, select, mutex, WaitGroup, network poller), the notify socket is empty, and no event was recorded
	// between two such observations. A loaded machine only makes this slower, never wrong.
	bubble := sockPath == ""
	var drain func() int
	settle := func() {
		if bubble {
			synctest.Wait()
			emit(map[string]any{"ev": "quiet"})
			cnt.mu.Lock()
			cnt.n--
			cnt.mu.Unlock()
			return
		}
		stable := 0
		last := -1
		for i := 0; i < 20000 && stable < 2; i++ {
			if i > 0 {
				time.Sleep(100 * time.Microsecond)
			}
			blocked := vfAllBlocked()
			got := 0
			if drain != nil {
				got = drain()
			}
			cnt.mu.Lock()
			n := cnt.n
			cnt.mu.Unlock()
			if blocked && got == 0 && n == last {
				stable++
			} else {
				stable = 0
			}
			last = n
		}
		emit(map[string]any{"ev": "quiet"})
		cnt.mu.Lock()
		cnt.n--
		cnt.mu.Unlock()
	}
	behs := vfList(sc, "beh")
	emit(map[string]any{"ev": "reset", "id": vfStr(sc, "id", ""), "n": len(behs)})

	var notifier *sdnotify.Notifier
	if bubble {
		emit(map[string]any{"ev": "nonotify"})
	}
	if !bubble {
		pc, err := net.ListenUnixgram("unixgram", &net.UnixAddr{Name: sockPath, Net: "unixgram"})
		if err != nil {
			panic(fmt.Sprintf("vf: %v", err))
		}
		defer pc.Close()
		rawc, err := pc.SyscallConn()
		if err != nil {
			panic(fmt.Sprintf("vf: %v", err))
		}
		dbuf := make([]byte, 4096)
		drain = func() int { // the datagrams the server has written so far (Notify is a synchronous write)
			got := 0
			for {
				n, rerr := 0, error(nil)
				if cerr := rawc.Read(func(fd uintptr) bool {
					n, _, rerr = syscall.Recvfrom(int(fd), dbuf, syscall.MSG_DONTWAIT)
					return true
				}); cerr != nil || rerr != nil || n <= 0 {
					return got
				}
				got++
				for _, line := range strings.Split(string(dbuf[:n]), "\n") {
					if line == "READY=1" {
						emit(map[string]any{"ev": "nready"})
					}
				}
			}
		}
		nn, err := sdnotify.Open(sockPath)
		if err != nil {
			panic(fmt.Sprintf("vf: %v", err))
		}
		defer nn.Close()
		notifier = nn
	}

	srv := NewServer(NewContext(nil, nil, nil))
	var saw atomic.Int32
	var tasks []Task
	var stubs []*vfTask
	for i, b := range behs {
		st := &vfTask{i: i + 1, beh: b.(string), readyC: make(chan struct{}), cmd: make(chan string), rel: make(chan struct{}),
			emit: emit, term: srv.t.terminate, saw: &saw, wrapc: vfBool(sc, "failwrap", false)}
		stubs = append(stubs, st)
		tasks = append(tasks, st)
	}
	sigC := make(chan os.Signal, 1)
	done := make(chan struct{})
	go func() {
		err := srv.Serve(sigC, notifier, tasks)
		first := 0
		if err != nil {
			if m := vfTaskRe.FindStringSubmatch(err.Error()); m != nil {
				first, _ = strconv.Atoi(m[1])
			}
		}
		emit(map[string]any{"ev": "sret", "err": err != nil, "first": first})
		close(done)
	}()
	settle()
	signalled := false
	sendSig := func(kind string) {
		var s os.Signal = syscall.SIGTERM
		switch kind {
		case "hup":
			s = syscall.SIGHUP
		case "int":
			s = os.Interrupt
		}
		emit(map[string]any{"ev": "signal", "term": kind != "hup"})
		signalled = true
		// The signal is delivered while the driver holds the terminator's mutex: recording the signal kind needs
		// that mutex, so a task that observes cancellation before the driver lets go has provably been cancelled
		// before the terminate / reload decision was recorded. "tgate false" is written before the mutex is
		// released, so in a correct run every "tsaw" line comes after it.
		if bubble { // (a goroutine waiting for a mutex is not durably blocked: no gate under virtual time)
			sigC <- s
			return
		}
		srv.t.mu.Lock()
		emit(map[string]any{"ev": "tgate", "held": true})
		before := saw.Load()
		sigC <- s
		for i := 0; i < 20 && saw.Load() == before; i++ {
			time.Sleep(500 * time.Microsecond)
		}
		emit(map[string]any{"ev": "tgate", "held": false})
		srv.t.mu.Unlock()
	}
	send := func(i int, c string) {
		select {
		case stubs[i-1].cmd <- c:
		case <-time.After(500 * time.Millisecond): // the task has already left its loop
		}
	}
	for _, raw := range vfList(sc, "h") {
		op := raw.(map[string]any)
		switch vfStr(op, "op", "") {
		case "ready", "fail", "early":
			send(vfInt(op, "i", 1), vfStr(op, "op", ""))
		case "signal":
			if !signalled {
				sendSig(vfStr(op, "sig", "term"))
			}
		case "sleep": // virtual time passes (bubble scenarios only)
			time.Sleep(time.Duration(vfInt(op, "ms", 0)) * time.Millisecond)
		case "release":
			i := vfInt(op, "i", 1)
			emit(map[string]any{"ev": "release", "i": i})
			close(stubs[i-1].rel)
			stubs[i-1].rel = make(chan struct{})
		}
		settle()
	}
	// wind down
	select {
	case <-done:
	default:
		if !signalled {
			sendSig("hup")
			settle()
		}
		for _, st := range stubs {
			select {
			case <-st.rel:
			default:
				emit(map[string]any{"ev": "release", "i": st.i})
				close(st.rel)
			}
		}
		select {
		case <-done:
		case <-time.After(3 * time.Second):
			emit(map[string]any{"ev": "hang"})
		}
	}
	settle()
	if bubble {
		// Serve's readiness waiters of tasks that never became ready would outlive the bubble: let them go
		for _, st := range stubs {
			st.rdy.Do(func() { close(st.readyC) })
		}
		synctest.Wait()
	}
}

func vfBuildScenario(rec *vfRec, sc map[string]any) {
	var cfg config.Config
	var ifs []any
	for _, x := range vfList(sc, "ifaces") {
		m := x.(map[string]any)
		cfg.Interfaces = append(cfg.Interfaces, config.Interface{Name: vfStr(m, "name", ""), Advertise: vfBool(m, "adv", false),
			Monitor: vfBool(m, "mon", false)})
		ifs = append(ifs, m)
	}
	if vfBool(sc, "debug", false) {
		cfg.Debug.Address = "127.0.0.1:0"
	}
	srv := NewServer(NewContext(nil, nil, nil))
	var kinds []any
	for _, task := range srv.BuildTasks(cfg, http.NotFoundHandler()) {
		// classified by what the task is, not by how it describes itself
		switch tk := task.(type) {
		case *Advertiser: // (an interface task without a link-state subscription is not the task the statement means)
			if tk.watchC == nil {
				kinds = append(kinds, "adv-without-link-watch:"+tk.cfg.Name)
				break
			}
			kinds = append(kinds, "adv:"+tk.cfg.Name)
		case *Monitor:
			if tk.watchC == nil {
				kinds = append(kinds, "mon-without-link-watch:"+tk.iface)
				break
			}
			kinds = append(kinds, "mon:"+tk.iface)
		case *httpTask:
			kinds = append(kinds, "http")
		case *watcherTask:
			kinds = append(kinds, "watcher")
		default:
			kinds = append(kinds, "other:"+task.String())
		}
	}
	if kinds == nil {
		kinds = []any{}
	}
	if ifs == nil {
		ifs = []any{}
	}
	rec.raw(map[string]any{"ev": "reset", "id": vfStr(sc, "id", ""), "n": 0})
	rec.raw(map[string]any{"ev": "build", "ifaces": ifs, "debug": vfBool(sc, "debug", false), "tasks": kinds})
}

// vfRetryScenario drives serve(ctx, ll, delay, fn) with scripted listener outcomes.
func vfRetryScenario(t *testing.T, rec *vfRec, sc map[string]any) {
	rec.raw(map[string]any{"ev": "reset", "id": vfStr(sc, "id", ""), "n": 0})
	outcomes := vfList(sc, "outcomes")
	cancelAfter := vfInt(sc, "cancel_ms", -1)
	synctest.Test(t, func(t *testing.T) {
		start := time.Now()
		ctx, cancel := context.WithCancel(context.Background())
		defer cancel()
		var times []any
		k := 0
		stopC := make(chan struct{})
		defer func() { close(stopC); synctest.Wait() }()
		if cancelAfter >= 0 {
			go func() {
				select {
				case <-time.After(time.Duration(cancelAfter) * time.Millisecond):
					cancel()
				case <-stopC:
				}
			}()
		}
		err := serve(ctx, nil, 3*time.Second, func() error {
			times = append(times, int(time.Since(start)/time.Millisecond))
			o := "op"
			if k < len(outcomes) {
				o = outcomes[k].(string)
			}
			k++
			switch o {
			case "closed":
				return http.ErrServerClosed
			case "other":
				return errors.New("vf: other listen error")
			}
			return &net.OpError{Op: "listen", Net: "tcp", Err: errors.New("vf: address in use")}
		})
		if times == nil {
			times = []any{}
		}
		outs := []any{}
		for _, o := range outcomes {
			outs = append(outs, o)
		}
		rec.raw(map[string]any{"ev": "retry", "times": times, "err": err != nil, "outcomes": outs, "cancel": cancelAfter,
			"ret_ms": int(time.Since(start) / time.Millisecond)})
	})
}

// vfHttpScenario runs the real httpTask.Run on a loopback address in real time: the driver may keep the address
// occupied for a while (the listen attempts at 0, 3 s, ... fail until it lets go), probes the configured handler once
// the task reports ready, cancels, and probes again after Run has returned. An observation that depends on the
// machine being responsive (late readiness, late return) is only recorded when it is seen twice in a row.
func vfHttpScenario(rec *vfRec, sc map[string]any) {
	id := vfStr(sc, "id", "")
	busy, cancelAt := vfInt(sc, "busy_ms", 0), vfInt(sc, "cancel_ms", 500)
	var ev map[string]any
	for try := 0; try < 2; try++ {
		ev = vfHttpOnce(id, busy, cancelAt, vfBool(sc, "inflight", false))
		T := (busy + 2999) / 3000 * 3000
		ready, ret, cancel := ev["ready"].(int), ev["ret"].(int), ev["cancel"].(int)
		late := ret < 0 || ret > cancel+1500 || (cancel > T+2500 && (ready < 0 || ready > T+1500))
		if !late {
			break
		}
	}
	rec.raw(map[string]any{"ev": "reset", "id": id, "n": 0})
	rec.raw(ev)
}

func vfHttpProbe(addr, marker string) bool {
	c := &http.Client{Timeout: 2 * time.Second, Transport: &http.Transport{DisableKeepAlives: true}}
	resp, err := c.Get("http://" + addr + "/")
	if err != nil {
		return false
	}
	defer resp.Body.Close()
	return resp.Header.Get("X-Vf") == marker
}

func vfHttpOnce(id string, busy, cancelAt int, inflight bool) map[string]any {
	l0, err := net.Listen("tcp", "127.0.0.1:0")
	if err != nil {
		panic("vf: no loopback listener: " + err.Error())
	}
	addr := l0.Addr().String()
	// "/block" is a request that is still being handled when the task is cancelled (a slow scrape): stopping does
	// not wait for it
	entered, unblock := make(chan struct{}, 1), make(chan struct{})
	defer close(unblock)
	h := http.HandlerFunc(func(w http.ResponseWriter, r *http.Request) {
		if r.URL.Path == "/block" {
			select {
			case entered <- struct{}{}:
			default:
			}
			select {
			case <-unblock:
			case <-time.After(30 * time.Second):
			}
			return
		}
		w.Header().Set("X-Vf", id)
		w.WriteHeader(http.StatusNoContent)
	})
	task := &httpTask{addr: addr, h: h, ll: log.New(io.Discard, "", 0), readyC: make(chan struct{})}
	ms := func(t0 time.Time) int { return int(time.Since(t0) / time.Millisecond) }
	if busy == 0 {
		l0.Close()
	}
	start := time.Now()
	if busy > 0 {
		time.AfterFunc(time.Duration(busy)*time.Millisecond, func() { l0.Close() })
	}
	ctx, cancel := context.WithCancel(context.Background())
	defer cancel()
	retC := make(chan error, 1)
	go func() { retC <- task.Run(ctx) }()
	ready, served, ret, rerr := -1, false, -1, false
	cancelT := time.After(time.Duration(cancelAt) * time.Millisecond)
	returned := false
	select {
	case <-task.Ready():
		ready = ms(start)
		served = vfHttpProbe(addr, id)
		if inflight {
			go func() {
				c := &http.Client{Timeout: 40 * time.Second, Transport: &http.Transport{DisableKeepAlives: true}}
				if resp, err := c.Get("http://" + addr + "/block"); err == nil {
					resp.Body.Close()
				}
			}()
			select {
			case <-entered:
			case <-time.After(5 * time.Second):
			}
		}
		select {
		case <-cancelT:
		case e := <-retC:
			ret, rerr, returned = ms(start), e != nil, true
		}
	case <-cancelT:
	case e := <-retC:
		ret, rerr, returned = ms(start), e != nil, true
	}
	cancelMs := ms(start)
	cancel()
	if !returned {
		select {
		case e := <-retC:
			ret, rerr = ms(start), e != nil
		case <-time.After(10 * time.Second):
		}
	}
	if ready < 0 {
		select {
		case <-task.Ready():
			ready = ms(start)
		default:
		}
	}
	alive := false
	if ret >= 0 {
		alive = vfHttpProbe(addr, id)
	}
	if busy > 0 {
		l0.Close()
	}
	return map[string]any{"ev": "http", "busy": busy, "cancel": cancelMs, "ready": ready, "served": served,
		"ret": ret, "err": rerr, "alive": alive}
}
