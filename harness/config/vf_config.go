package config

// C02 / C01 / C03: TOML documents (rendered by lib/cfgdoc.py from abstract
// documents, or raw bytes) through the real Parse; on acceptance the
// elaborated interfaces are recorded in abstract form, the RA is built with an
// injected system state (addresses, loopback routes, hardware address, clock,
// forwarding) and passed through the ndp codec.

import (
	"encoding/hex"
	"errors"
	"fmt"
	"net"
	"net/netip"
	"reflect"
	"strings"
	"testing"
	"time"

	"github.com/mdlayher/corerad/internal/plugin"
	"github.com/mdlayher/corerad/internal/system"
	"github.com/mdlayher/ndp"
)

func vfGroupsC(a netip.Addr) []any {
	if a.Is4() {
		b := a.As4()
		return []any{0, 0, 0, 0, 0, 0, int(b[0])<<8 | int(b[1]), int(b[2])<<8 | int(b[3])}
	}
	b := a.As16()
	out := make([]any, 8)
	for i := 0; i < 8; i++ {
		out[i] = int(b[2*i])<<8 | int(b[2*i+1])
	}
	return out
}

func vfAbsPlugin(p plugin.Plugin) map[string]any {
	switch p := p.(type) {
	case *plugin.Prefix:
		return map[string]any{"k": "prefix", "wild": p.Auto, "pfx": p.Prefix.String(), "h": vfGroupsC(p.Prefix.Addr()), "bits": p.Prefix.Bits(),
			"onlink": p.OnLink, "auto": p.Autonomous, "valid": vfDur(p.ValidLifetime), "pref": vfDur(p.PreferredLifetime), "deprecated": p.Deprecated}
	case *plugin.Route:
		return map[string]any{"k": "route", "wild": p.Auto, "pfx": p.Prefix.String(), "h": vfGroupsC(p.Prefix.Addr()), "bits": p.Prefix.Bits(),
			"preference": vfPref(p.Preference), "life": vfDur(p.Lifetime), "deprecated": p.Deprecated}
	case *plugin.RDNSS:
		ss, sh := []any{}, []any{}
		for _, s := range p.Servers {
			ss = append(ss, s.String())
			sh = append(sh, vfGroupsC(s))
		}
		return map[string]any{"k": "rdnss", "wild": p.Auto, "life": vfDur(p.Lifetime), "servers": ss, "sh": sh}
	case *plugin.DNSSL:
		ns := []any{}
		for _, n := range p.DomainNames {
			ns = append(ns, n)
		}
		return map[string]any{"k": "dnssl", "life": vfDur(p.Lifetime), "names": ns}
	case *plugin.MTU:
		return map[string]any{"k": "mtu", "mtu": int(*p)}
	case *plugin.LLA:
		return map[string]any{"k": "lla"}
	case *plugin.CaptivePortal:
		return map[string]any{"k": "cp", "uri": p.Portal.URI}
	case *plugin.PREF64:
		return map[string]any{"k": "pref64", "pfx": p.Inner.Prefix.String(), "life": vfDur(p.Inner.Lifetime)}
	}
	return map[string]any{"k": fmt.Sprintf("%T", p)}
}

func vfAbsIface(ifi Interface) map[string]any {
	ps := []any{}
	for _, p := range ifi.Plugins {
		ps = append(ps, vfAbsPlugin(p))
	}
	return map[string]any{"name": ifi.Name, "monitor": ifi.Monitor, "advertise": ifi.Advertise, "verbose": ifi.Verbose,
		"managed": ifi.Managed, "other": ifi.OtherConfig, "unicast": ifi.UnicastOnly, "min": vfDur(ifi.MinInterval),
		"max": vfDur(ifi.MaxInterval), "reach": vfDur(ifi.ReachableTime), "retrans": vfDur(ifi.RetransmitTimer),
		"life": vfDur(ifi.DefaultLifetime), "hop": int(ifi.HopLimit), "preference": vfPref(ifi.Preference), "plugins": ps}
}

// vfAbsRAH is vfAbsRA plus numeric groups for every address (for the TLA+ side).
func vfAbsRAH(ra *ndp.RouterAdvertisement) map[string]any {
	m := vfAbsRA(ra)
	opts := m["opts"].([]any)
	for i, o := range ra.Options {
		om := opts[i].(map[string]any)
		switch o := o.(type) {
		case *ndp.PrefixInformation:
			om["h"], om["bits"] = vfGroupsC(o.Prefix), int(o.PrefixLength)
		case *ndp.RouteInformation:
			om["h"], om["bits"] = vfGroupsC(o.Prefix), int(o.PrefixLength)
		case *ndp.RecursiveDNSServer:
			sh := []any{}
			for _, s := range o.Servers {
				sh = append(sh, vfGroupsC(s))
			}
			om["sh"] = sh
		}
	}
	return m
}

func vfSysIPs(list []any) []system.IP {
	var ips []system.IP
	for _, x := range list {
		m := x.(map[string]any)
		a := netip.MustParseAddr(vfStr(m, "addr", ""))
		ips = append(ips, system.IP{Address: netip.PrefixFrom(a, vfInt(m, "bits", 64)), Deprecated: vfBool(m, "dep", false),
			ManageTemporaryAddresses: vfBool(m, "mt", false), StablePrivacy: vfBool(m, "sp", false), Temporary: vfBool(m, "tmp", false),
			Tentative: vfBool(m, "tent", false), ValidForever: vfBool(m, "forever", false)})
	}
	return ips
}

var vfEpoch = time.Date(2026, 1, 1, 0, 0, 0, 0, time.UTC)

func TestVF_Config(t *testing.T) {
	in, out := vfEnv("VF_IN", ""), vfEnv("VF_OUT", "")
	if in == "" || out == "" {
		t.Skip("VF_IN / VF_OUT not set")
	}
	rec := vfNewRec(out)
	defer rec.close()
	for _, v := range vfReadLines(in) {
		text := vfStr(v, "toml", "")
		if hx := vfStr(v, "hex", ""); hx != "" {
			b, _ := hex.DecodeString(hx)
			text = string(b)
		}
		res := map[string]any{"panic": false, "accepted": false, "err": "", "elab": map[string]any{}, "ras": []any{}}
		func() {
			defer func() {
				if r := recover(); r != nil {
					res["panic"] = true
					res["err"] = fmt.Sprint(r)
				}
			}()
			cfg, err := Parse(strings.NewReader(text), vfEpoch)
			if err != nil {
				res["err"] = err.Error()
				return
			}
			res["accepted"] = true
			ifs := []any{}
			for _, ifi := range cfg.Interfaces {
				ifs = append(ifs, vfAbsIface(ifi))
			}
			res["elab"] = map[string]any{"ifaces": ifs, "debug": map[string]any{"addr": cfg.Debug.Address != "",
				"prometheus": cfg.Debug.Prometheus, "pprof": cfg.Debug.PProf}}
			if sys := vfMap(v, "sys"); len(sys) > 0 {
				res["ras"] = vfBuildAll(cfg, sys)
			}
		}()
		o := map[string]any{"kind": vfStr(v, "kind", "doc"), "id": vfStr(v, "id", ""), "out": res}
		if d, ok := v["doc"]; ok {
			o["doc"] = d
		}
		if s, ok := v["sys"]; ok {
			o["sys"] = s
		}
		rec.raw(o)
	}
}

// vfBuildAll prepares every advertising interface (each with its own hardware
// address, as Advertiser.Run does), then builds each interface's RA several
// times and passes it through the codec.
func vfBuildAll(cfg *Config, sys map[string]any) []any {
	ips := vfSysIPs(vfList(sys, "addrs"))
	var routes []system.Route
	for _, x := range vfList(sys, "routes") {
		routes = append(routes, system.Route{Prefix: netip.MustParsePrefix(vfStr(x.(map[string]any), "pfx", "")), Index: 1})
	}
	now := vfEpoch.Add(time.Duration(vfInt(sys, "clock", 0)) * time.Second)
	fwd := vfBool(sys, "fwd", true)
	mac := vfBool(sys, "mac", true)
	afail, rfail := vfBool(sys, "addrfail", false), vfBool(sys, "routefail", false)
	// Prepare phase: every interface, in order.
	for idx := range cfg.Interfaces {
		ifi := cfg.Interfaces[idx]
		var hw net.HardwareAddr
		if mac {
			hw = net.HardwareAddr{2, 0, 0, 0, 0, byte(idx + 1)}
		}
		for _, p := range ifi.Plugins {
			switch p := p.(type) {
			case *plugin.LLA:
				_ = p.Prepare(&net.Interface{Name: ifi.Name, Index: idx + 1, HardwareAddr: hw})
			case *plugin.Prefix:
				p.TimeNow = func() time.Time { return now }
				p.Addrs = func() ([]system.IP, error) {
					if afail {
						return nil, errors.New("vf: address listing failed")
					}
					return append([]system.IP(nil), ips...), nil
				}
			case *plugin.RDNSS:
				p.Addrs = func() ([]system.IP, error) {
					if afail {
						return nil, errors.New("vf: address listing failed")
					}
					return append([]system.IP(nil), ips...), nil
				}
			case *plugin.Route:
				p.TimeNow = func() time.Time { return now }
				p.Routes = func() ([]system.Route, error) {
					if rfail {
						return nil, errors.New("vf: route dump failed")
					}
					return append([]system.Route(nil), routes...), nil
				}
			}
		}
	}
	out := []any{}
	for idx, ifi := range cfg.Interfaces {
		r := map[string]any{"name": ifi.Name, "advertise": ifi.Advertise, "idx": idx + 1, "err": false, "ra": map[string]any{},
			"stable": true, "cfgsame": true, "misconf": false, "wire": map[string]any{"ok": false, "ra": map[string]any{}}}
		if !ifi.Advertise {
			out = append(out, r)
			continue
		}
		before := fmt.Sprintf("%+v|%v", vfAbsIface(ifi), vfPluginDump(ifi))
		ra, ms, err := ifi.RouterAdvertisement(fwd)
		if err != nil {
			r["err"] = true
			out = append(out, r)
			continue
		}
		r["ra"] = vfAbsRAH(ra)
		r["misconf"] = len(ms) > 0
		for k := 0; k < 4; k++ {
			ra2, _, err2 := ifi.RouterAdvertisement(fwd)
			if err2 != nil || !reflect.DeepEqual(vfAbsRAH(ra2), vfAbsRAH(ra)) {
				r["stable"] = false
			}
		}
		if after := fmt.Sprintf("%+v|%v", vfAbsIface(ifi), vfPluginDump(ifi)); after != before {
			r["cfgsame"] = false
		}
		if b, err := ndp.MarshalMessage(ra); err == nil {
			if m, err := ndp.ParseMessage(b); err == nil {
				if dec, ok := m.(*ndp.RouterAdvertisement); ok {
					r["wire"] = map[string]any{"ok": true, "ra": vfAbsRAH(dec)}
				}
			}
		}
		out = append(out, r)
	}
	return out
}

func vfPluginDump(ifi Interface) string {
	var b strings.Builder
	for _, p := range ifi.Plugins {
		switch p := p.(type) {
		case *plugin.Prefix:
			fmt.Fprintf(&b, "P%v%v%v%v%v%v%v;", p.Auto, p.Prefix, p.OnLink, p.Autonomous, p.ValidLifetime, p.PreferredLifetime, p.Deprecated)
		case *plugin.Route:
			fmt.Fprintf(&b, "R%v%v%v%v%v;", p.Auto, p.Prefix, p.Preference, p.Lifetime, p.Deprecated)
		case *plugin.RDNSS:
			fmt.Fprintf(&b, "D%v%v%v;", p.Auto, p.Lifetime, p.Servers)
		case *plugin.DNSSL:
			fmt.Fprintf(&b, "S%v%v;", p.Lifetime, p.DomainNames)
		}
	}
	return b.String()
}
