package system

// Replays TLC-generated outcome scripts (spec/Dialer.tla) into the real
// Dialer.Dial / init / dial / setAutoconf under testing/synctest and records
// the observable events for spec/DialTrace.tla.

import (
	"context"
	"errors"
	"fmt"
	"io"
	"log"
	"net"
	"net/netip"
	"os"
	"strings"
	"sync"
	"syscall"
	"testing"
	"testing/synctest"
	"time"
)

func vfClassErr(class string) error {
	switch class {
	case "sys":
		return &os.SyscallError{Syscall: "vfcall", Err: syscall.ENOBUFS}
	case "perm":
		return &os.SyscallError{Syscall: "vfcall", Err: syscall.EPERM}
	case "permplain":
		return os.ErrPermission
	case "notexist":
		return &os.PathError{Op: "open", Path: "/proc/sys/vf", Err: syscall.ENOENT}
	case "lnr":
		return fmt.Errorf("vf: %w", ErrLinkNotReady)
	case "link":
		return ErrLinkChange
	case "canceled":
		return fmt.Errorf("vf: %w", context.Canceled)
	}
	return errors.New("vf: other error")
}

// vfErrClass classifies an error the way the requirement does.
func vfErrClass(err error) string {
	var serr *os.SyscallError
	switch {
	case err == nil:
		return "ok"
	case errors.As(err, &serr):
		if errors.Is(serr, os.ErrPermission) {
			return "perm"
		}
		return "sys"
	case errors.Is(err, ErrLinkNotReady):
		return "lnr"
	case errors.Is(err, ErrLinkChange):
		return "link"
	}
	return "other"
}

type vfDialWorld struct {
	rec       *vfRec
	mu        sync.Mutex
	script    []map[string]any
	pos       int
	cur       map[string]any // dial entry being consumed
	inDial    bool
	sysctl    bool
	restore   string
	nsock     int
	cancel    context.CancelFunc
	cancelled bool
}

func (w *vfDialWorld) doCancel(why string) {
	if !w.cancelled {
		w.cancelled = true
		w.rec.emit("cancel", "why", why)
		w.cancel()
	}
}

// next pops the next script entry of kind c; when the script is exhausted the
// harness stops the run (cancel) and hands out a benign outcome.
func (w *vfDialWorld) next(c string) map[string]any {
	w.mu.Lock()
	defer w.mu.Unlock()
	if w.pos < len(w.script) && vfStr(w.script[w.pos], "c", "") == c {
		e := w.script[w.pos]
		w.pos++
		return e
	}
	w.doCancel("script-exhausted")
	if c == "dial" {
		return map[string]any{"c": "dial", "pre": "lnr", "get": "ok", "set": "ok", "cancel": false}
	}
	return map[string]any{"c": "fn", "res": "nil", "restore": "ok", "cancel": false}
}

type vfDialState struct{ w *vfDialWorld }

func (s vfDialState) IPv6Forwarding(string) (bool, error) { return true, nil }
func (s vfDialState) IPv6Autoconf(string) (bool, error) {
	w := s.w
	res := "ok"
	if w.cur != nil {
		res = vfStr(w.cur, "get", "ok")
	}
	if res != "ok" {
		w.rec.emit("auto_get", "val", false, "res", res)
		return false, vfClassErr(res)
	}
	w.rec.emit("auto_get", "val", w.sysctl, "res", "ok")
	return w.sysctl, nil
}
func (s vfDialState) SetIPv6Autoconf(_ string, v bool) error {
	w := s.w
	phase, res := "restore", w.restore
	if w.inDial {
		phase, res = "disable", vfStr(w.cur, "set", "ok")
	}
	if res == "" {
		res = "ok"
	}
	if res != "ok" {
		w.rec.emit("auto_set", "phase", phase, "val", v, "res", res)
		if res == "perm" {
			return vfClassErr("permplain")
		}
		return vfClassErr(res)
	}
	w.sysctl = v
	w.rec.emit("auto_set", "phase", phase, "val", v, "res", "ok")
	return nil
}

func TestVF_Dial(t *testing.T) {
	in, out := vfEnv("VF_IN", ""), vfEnv("VF_OUT", "")
	if in == "" || out == "" {
		t.Skip("VF_IN / VF_OUT not set")
	}
	rec := vfNewRec(out)
	defer rec.close()
	for _, sc := range vfReadLines(in) {
		func() {
			defer func() {
				if r := recover(); r != nil {
					kind := "panic"
					if s := fmt.Sprint(r); strings.Contains(s, "deadlock") || strings.Contains(s, "blocked") {
						kind = "leak"
					}
					rec.emit(kind, "msg", fmt.Sprint(r))
				}
			}()
			synctest.Test(t, func(t *testing.T) { vfRunDial(rec, sc) })
		}()
		rec.emit("end", "id", vfStr(sc, "id", ""))
	}
}

func vfRunDial(rec *vfRec, sc map[string]any) {
	rec.setOrigin(time.Now())
	adv := vfBool(sc, "adv", true)
	w := &vfDialWorld{rec: rec, sysctl: vfBool(sc, "initauto", true)}
	for _, e := range vfList(sc, "h") {
		w.script = append(w.script, e.(map[string]any))
	}
	real := vfBool(sc, "realdial", true) // use the (rewritten) real dial()
	rec.emit("reset", "id", vfStr(sc, "id", ""), "adv", adv, "initauto", w.sysctl, "realdial", real)

	ctx, cancel := context.WithCancel(context.Background())
	w.cancel = cancel
	mode := Advertise
	if !adv {
		mode = Monitor
	}
	d := NewDialer("vf0", vfDialState{w: w}, mode, log.New(io.Discard, "", 0))

	VFSetDialHooks(&VFDialHooks{
		Lookup: func(iface string) (*net.Interface, error) {
			w.cur = w.next("dial")
			w.inDial = true
			if vfBool(w.cur, "cancel", false) {
				w.doCancel("during-dial")
			}
			switch pre := vfStr(w.cur, "pre", "ok"); pre {
			case "lnr", "other":
				return nil, vfClassErr(pre)
			}
			return &net.Interface{Name: iface, Index: 7, Flags: net.FlagUp}, nil
		},
		Check: func(*net.Interface) error { return nil },
		Listen: func(*net.Interface) (*VFNDPConn, netip.Addr, error) {
			if pre := vfStr(w.cur, "pre", "ok"); pre != "ok" {
				return nil, netip.Addr{}, vfClassErr(pre)
			}
			w.nsock++
			id := w.nsock
			rec.emit("sock", "s", id)
			return &VFNDPConn{ID: id,
				OnClose: func(id int) error { rec.emit("close", "s", id); return nil },
				OnLeave: func(id int) error { rec.emit("leave", "s", id); return nil },
			}, netip.MustParseAddr("fe80::1"), nil
		},
	})
	defer VFSetDialHooks(nil)

	inner := d.DialFunc
	curK := 0
	d.DialFunc = func() (*DialContext, error) {
		dctx, err := inner()
		w.inDial = false
		if err == nil && dctx == nil {
			// neither a connection nor an error: recorded as such (the Dialer itself would hand nil to the task)
			rec.emit("dial", "res", "nilctx", "k", 0)
			return nil, errors.New("vf: dial returned neither a connection nor an error")
		}
		cls := vfErrClass(err)
		if err != nil {
			rec.emit("dial", "res", cls, "k", 0)
			return nil, err
		}
		k := w.nsock
		if c, ok := dctx.Conn.(*VFNDPConn); ok {
			if c == nil { // a context around a connection that was never opened
				rec.emit("dial", "res", "nilctx", "k", 0)
				return nil, errors.New("vf: dial returned a context without a connection")
			}
			k = c.ID
		}
		curK = k
		rec.emit("dial", "res", "ok", "k", k)
		if dctx.done != nil {
			orig := dctx.done
			dctx.done = func() error {
				err := orig()
				rec.emit("done", "k", k, "err", err != nil)
				return err
			}
		}
		return dctx, nil
	}

	done := make(chan struct{})
	go func() {
		err := d.Dial(ctx, func(ctx context.Context, dctx *DialContext) error {
			e := w.next("fn")
			if vfBool(e, "cancel", false) {
				w.doCancel("during-task")
			}
			res := vfStr(e, "res", "nil")
			w.restore = vfStr(e, "restore", "ok")
			rec.emit("fn", "k", curK, "res", res)
			if res == "nil" {
				return nil
			}
			return vfClassErr(res)
		})
		if err != nil {
			rec.emit("ret", "res", "err", "msg", err.Error())
		} else {
			rec.emit("ret", "res", "nil", "msg", "")
		}
		close(done)
	}()

	for i := 0; ; i++ {
		synctest.Wait()
		select {
		case <-done:
			return
		default:
		}
		w.mu.Lock()
		wc := w.pos < len(w.script) && vfStr(w.script[w.pos], "c", "") == "wcancel"
		if wc {
			w.pos++
		}
		w.mu.Unlock()
		if wc {
			w.doCancel("while-waiting")
			continue
		}
		if i > 2000 {
			rec.emit("hang")
			w.doCancel("hang")
			synctest.Wait()
			return
		}
		rec.emit("advance", "to", int((time.Since(rec.origin)+250*time.Millisecond)/time.Millisecond))
		time.Sleep(250 * time.Millisecond)
	}
}
