package system

// Export shim added by `go test -overlay` (never present in /repo): lets a
// harness in another package build a DialContext with a cleanup closure.

import (
	"net"
	"net/netip"
)

// VFNewDialContext builds a DialContext whose unexported cleanup is done.
func VFNewDialContext(c Conn, ifi *net.Interface, ip netip.Addr, done func() error) *DialContext {
	return &DialContext{Conn: c, Interface: ifi, IP: ip, done: done}
}
