//go:build linux

package system

// Export shim (overlay only): an Addresser whose rtnetlink round trip is
// replaced, so that the flag / prefix decoding of AddressesByIndex and
// routesByIndex is on the path of the wildcard checks.

import (
	"github.com/jsimonetti/rtnetlink"
	"github.com/mdlayher/netlink"
)

// VFNewAddresser builds the Linux addresser with a substitute execute function.
func VFNewAddresser(exec func(m rtnetlink.Message, family uint16, flags netlink.HeaderFlags) ([]rtnetlink.Message, error)) Addresser {
	return &addresser{execute: exec}
}

// VFRoutesByIndex calls the route dump decoding for one interface index.
func VFRoutesByIndex(a Addresser, idx int) ([]Route, error) { return a.(*addresser).routesByIndex(idx) }
