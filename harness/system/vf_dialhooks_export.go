package system

// Substitutes for the three package-level functions that (*Dialer).dial calls,
// used by the rewritten copy of dialer.go (see lib/vf.py rewrite_dial). Added
// by `go test -overlay`; never present in /repo. They forward to a hook set by
// the harness test.

import (
	"errors"
	"net"
	"net/netip"
	"time"

	"github.com/mdlayher/ndp"
	"golang.org/x/net/ipv6"
)

// VFDialHooks is installed by the harness.
type VFDialHooks struct {
	Lookup func(iface string) (*net.Interface, error)
	Check  func(ifi *net.Interface) error
	Listen func(ifi *net.Interface) (*VFNDPConn, netip.Addr, error)
}

var vfHooks *VFDialHooks

// VFSetDialHooks installs h (nil removes it).
func VFSetDialHooks(h *VFDialHooks) { vfHooks = h }

func vfLookupInterface(iface string) (*net.Interface, error) {
	if vfHooks == nil {
		return nil, errors.New("vf: no dial hooks installed")
	}
	return vfHooks.Lookup(iface)
}

func vfCheckInterface(ifi *net.Interface, _ func() ([]net.Addr, error)) error {
	return vfHooks.Check(ifi)
}

func vfDialNDP(ifi *net.Interface) (*VFNDPConn, netip.Addr, error) {
	return vfHooks.Listen(ifi)
}

// VFNDPConn stands in for *ndp.Conn inside dial(): it has the two extra
// methods the cleanup closure uses and implements Conn.
type VFNDPConn struct {
	ID      int
	OnClose func(id int) error
	OnLeave func(id int) error
}

var _ Conn = &VFNDPConn{}

// (a nil receiver means the code under test is using a connection it never obtained: that is its crash, not the stub's)
func (c *VFNDPConn) LeaveGroup(_ netip.Addr) error {
	if c == nil {
		panic("VF-PRODUCT: LeaveGroup on a connection that was never dialled")
	}
	return c.OnLeave(c.ID)
}
func (c *VFNDPConn) Close() error {
	if c == nil {
		panic("VF-PRODUCT: Close on a connection that was never dialled")
	}
	return c.OnClose(c.ID)
}
func (c *VFNDPConn) ReadFrom() (ndp.Message, *ipv6.ControlMessage, netip.Addr, error) {
	return nil, nil, netip.Addr{}, errors.New("vf: not readable")
}
func (c *VFNDPConn) SetReadDeadline(_ time.Time) error { return nil }
func (c *VFNDPConn) WriteTo(_ ndp.Message, _ *ipv6.ControlMessage, _ netip.Addr) error {
	return nil
}
