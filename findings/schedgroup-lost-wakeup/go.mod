module sgprobe
go 1.26.8
require github.com/mdlayher/schedgroup v1.0.0
