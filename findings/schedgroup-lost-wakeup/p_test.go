package sgprobe

import (
	"context"
	"sync/atomic"
	"testing"
	"testing/synctest"
	"time"

	"github.com/mdlayher/schedgroup"
)

func TestLostWakeup(t *testing.T) {
	var late, late2 int64
	for w := 0; w < 16; w++ {
		t.Run("w", func(t *testing.T) {
			t.Parallel()
			for i := 0; i < 20000; i++ {
				synctest.Test(t, func(t *testing.T) {
					ctx, cancel := context.WithCancel(context.Background())
					defer cancel()
					sg := schedgroup.New(ctx)
					start := time.Now()
					var fired, firedB time.Duration = -1, -1
					sg.Delay(3*time.Second, func() { fired = time.Since(start) })
					time.Sleep(4 * time.Second)
					synctest.Wait()
					if fired != 3*time.Second {
						atomic.AddInt64(&late, 1)
					}
					// pattern 2: two back-to-back schedules, the second one earlier
					start = time.Now()
					sg.Delay(10*time.Second, func() {})
					sg.Delay(1*time.Second, func() { firedB = time.Since(start) })
					time.Sleep(2 * time.Second)
					synctest.Wait()
					if firedB != 1*time.Second {
						atomic.AddInt64(&late2, 1)
					}
				})
			}
		})
	}
	t.Cleanup(func() { t.Logf("startup pattern late: %d, back-to-back pattern late: %d (of 320000 each)", late, late2) })
}
